"""Known findings: committed list in /verif/known_findings.json, never written at run time.

Each entry is keyed by *mechanism*: the monitors label a violation with a specific `kind`
only when the witness satisfies that mechanism's predicate (see the monitor that emits it);
anything else gets a generic kind and is therefore reported as a new VIOLATION.
Entries with status "fixed" suppress nothing.
"""
import json
import os

PATH = os.path.join(os.path.dirname(os.path.dirname(os.path.abspath(__file__))), 'known_findings.json')


def load(prop):
    try:
        with open(PATH) as f:
            data = json.load(f)
    except (OSError, ValueError):
        return []
    return [e for e in data.get('findings', []) if e.get('property') == prop and e.get('status') == 'known']


def match(known, violation):
    for e in known:
        if violation.get('kind') == e.get('kind') or violation.get('kind') in e.get('kinds', []):
            return e
    return None
