"""The repository's own tests as a workload: one case = one test file run under pytest with vlib.pytest_monitors, which judges
every run_sim call the tests make with the property's oracle.  The tests run unmodified from a private scratch directory
(nothing is written into the repository) and whether they pass is not a verdict here."""
import json
import os
import shutil
import subprocess
import sys
import tempfile

VERIF = os.path.dirname(os.path.dirname(os.path.dirname(os.path.abspath(__file__))))
# files whose tests simulate with WNTRSimulator / EpanetSimulator; a few seconds each
FILES = ['test_network_controls.py', 'test_network_valves.py', 'test_network_minor_loss.py', 'test_network_leaks.py',
         'test_sim_PDD.py', 'test_network_pump_outage.py', 'test_sim_demand_multiplier.py', 'test_times.py', 'test_multiple_simulations.py',
         'test_sim_reset_conditions.py', 'test_morph.py', 'test_metrics_todini.py']


QUICK_FILES = ['test_network_valves.py', 'test_network_controls.py', 'test_network_leaks.py']


def files(tier):
    return FILES if tier == 'thorough' else QUICK_FILES


def maybe_run(c, prop, base):
    """Cases with index >= base are suite cases; returns True when this was one."""
    if c.index < base:
        return False
    fl = files(c.tier)
    run_suite_case(c, prop, fl[(c.index - base) % len(fl)])
    return True


def run_suite_case(c, prop, fname, timeout=240):
    tree = os.environ.get('VERIF_REPO', '/repo')
    path = os.path.join(tree, 'wntr', 'tests', fname)
    c.set_sig('suite', fname)
    c.sample = {'suite_file': fname}
    if not os.path.exists(path):
        c.inconclusive('suite_file_missing')
        return
    tmp = tempfile.mkdtemp(prefix='verif_suite_')
    out = os.path.join(tmp, 'obs.jsonl')
    env = dict(os.environ, VERIF_SUITE_PROP=prop, VERIF_SUITE_OUT=out, PYTHONPATH=VERIF + os.pathsep + tree, MPLBACKEND='Agg', PYTHONHASHSEED='0')
    env.pop('LD_PRELOAD', None)
    try:
        try:
            r = subprocess.run([sys.executable, '-W', 'ignore', '-m', 'pytest', '-q', '-p', 'no:cacheprovider', '-p', 'vlib.pytest_monitors', path],
                               cwd=tmp, env=env, capture_output=True, text=True, timeout=timeout)
        except subprocess.TimeoutExpired:
            c.inconclusive('suite_timeout')
            return
        calls = 0
        if os.path.exists(out):
            for ln in open(out):
                rec = json.loads(ln)
                if 'harness_error' in rec:
                    c.count('suite_harness_errors')
                    c.notes.append(rec['harness_error'][-400:])
                    continue
                calls += 1
                c.count('suite_calls_observed')
                for k, v in rec['counters'].items():
                    c.count(k, v)
                for v in rec['violations']:
                    c.violate(v['kind'], '[%s] %s' % (rec['test'], v['msg']), suite_file=fname, test=rec['test'])
        if calls == 0:
            c.inconclusive('suite_no_calls_observed: %s' % (r.stdout.strip().splitlines()[-1][:80] if r.stdout.strip() else r.stderr[-80:]))
            return
        c.nontrivial = True
    finally:
        shutil.rmtree(tmp, ignore_errors=True)
