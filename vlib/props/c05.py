"""C05 - reported states are consistent with every conditional simple control.

Events (report_timestep='ALL', i.e. every solved instant): tank levels, junction pressures, link
status/setting, tank flows; the list of simple controls IF <tank level | junction pressure> THEN <link action>.
Oracle: for every control whose condition is *definitely* true on the reported state (beyond the
threshold by more than the solver head tolerance plus 2 s of tank flow) the target has the commanded
value, except (i) commanded open but legitimately held closed by the link's own check valve, the pump
shut-off rule or an adjacent tank at a level limit, (ii) another definitely- or possibly-true control
on the same target commanding something else.  Overshoot: when a tank-level control changes its
target, the level at that solved instant is within 2 s of tank flow of the threshold.
"""
import math
import traceback

from vlib.gen import net as gnet
from vlib.gen import ctrlgen
from vlib.gen import ctrl as gctrl
from vlib.ref import hyd as ref
from vlib import simobs

ID = 'C05'
LEVEL = 'exploration'
HTOL = 1.524e-4
RULE = ('(a) fill/drain rigs: source pump + 1-2 small tanks + junction demands with patterns, 2-8 simple controls (pump/pipe OPEN below a low '
        'level, CLOSED above a high level, hysteresis pairs, thresholds that are crossed several per hydraulic step, junction-pressure '
        'controls, TCV setting controls, priorities), hydraulic step 600-3600 s; (b) G-net networks with tanks and random tank/pressure '
        "controls; every solved instant (report 'ALL') x every control is judged; signature = rig/network class + control kinds + "
        'truth-change pattern; non-trivial = at least one control condition changes its truth value during the run')
ASSUMPTIONS = ['a condition is judged only when the reported value is beyond the threshold by more than 1.524e-4 m + 2 s of the reported tank flow / area',
               'legitimate reasons for a commanded-open link to be reported closed are re-derived from the reported heads: own check valve with '
               'adverse head, head pump with head gain demand above its shut-off head, adjacent tank at min (max) level with flow out of (into) it',
               'runs that do not converge are inconclusive (C16 covers them)']
FLOORS = {'quick': {'conclusive': 80, 'distinct_nontrivial': 40,
                    'counters': {'instants_judged': 1000, 'control_instants_definitely_true': 1600, 'commanded_closed_checked': 800,
                                 'commanded_open_checked': 400, 'truth_changes': 250, 'partial_steps_at_thresholds': 250,
                                 'pressure_controls_true': 150, 'tank_controls_true': 1200, 'overshoot_checked': 20,
                                 'outranked_rival_instants': 150}},
          'thorough': {'conclusive': 1200, 'distinct_nontrivial': 600,
                       'counters': {'instants_judged': 16000, 'control_instants_definitely_true': 26000, 'commanded_closed_checked': 13000,
                                    'commanded_open_checked': 6500, 'truth_changes': 4000, 'partial_steps_at_thresholds': 4000,
                                    'pressure_controls_true': 2500, 'tank_controls_true': 20000, 'overshoot_checked': 300,
                                    'outranked_rival_instants': 2000}}}
CASE_TIMEOUT = {'quick': 300, 'thorough': 600}


# appended to RULE in the evidence (vlib/runner.py)
RULE_ADDENDUM = "Added in round 6: every fourth generated network has pumps (half of them constant-power) delivering straight into small tanks, with the usual 'level below x -> pump OPEN' control; a pump held closed by a full (or drawing from an empty) tank is excused whatever the heads. Round 7: every fifth case re-sizes the cylindrical tanks that level controls look at after the controls exist."

def n_cases(tier):
    return 320 if tier == 'quick' else 4500


def rig_spec(rng, tier):
    hyd = rng.choice([600, 900, 1800, 3600])
    steps = rng.randint(8, 30 if tier == 'quick' else 60)
    spec = {'version': 1, 'name': 'c05rig', 'junctions': [], 'reservoirs': [], 'tanks': [], 'pipes': [], 'pumps': [], 'valves': [],
            'patterns': {}, 'curves': {}, 'leaks': [], 'controls': [],
            'options': {'hydraulic_timestep': hyd, 'pattern_timestep': rng.choice([hyd, 3600, 7200]), 'report_timestep': 'ALL',
                        'duration': hyd * steps, 'rule_timestep': min(hyd, 360), 'pattern_start': 0, 'start_clocktime': 0,
                        'demand_multiplier': 1.0, 'demand_model': 'DD', 'minimum_pressure': 0.0, 'required_pressure': 0.07,
                        'pressure_exponent': 0.5}}
    spec['patterns']['DP'] = [gnet._round(rng.uniform(0.3, 2.2), 3) for _ in range(rng.choice([4, 6, 8, 12]))]
    qd = gnet._round(rng.uniform(0.004, 0.02), 4)
    spec['reservoirs'].append({'name': 'R1', 'head': gnet._round(rng.uniform(5, 25), 3), 'pattern': None, 'coordinates': [0, 0]})
    for i, dem in enumerate([0.4, 0.6]):
        spec['junctions'].append({'name': 'J%d' % (i + 1), 'elevation': gnet._round(rng.uniform(0, 15), 3),
                                  'demands': [{'base': gnet._round(qd * dem, 5), 'pattern': 'DP', 'category': None}],
                                  'coordinates': [100 * (i + 1), 0]})
    ntank = rng.choice([1, 1, 2])
    for k in range(ntank):
        diam = rng.choice([3.0, 4.0, 6.0, 10.0])
        maxl = gnet._round(rng.uniform(3, 8), 2)
        tk = {'name': 'T%d' % (k + 1), 'elevation': gnet._round(rng.uniform(45, 60), 3), 'min_level': rng.choice([0.0, 0.3]),
              'max_level': maxl, 'init_level': gnet._round(rng.uniform(0.3 * maxl, 0.7 * maxl), 3), 'diameter': diam, 'min_vol': 0.0,
              'vol_curve': None, 'overflow': False, 'coordinates': [200 + 50 * k, 100]}
        if rng.random() < 0.25:
            area = math.pi * diam ** 2 / 4
            pts = [[0.0, 0.0], [gnet._round(maxl / 2, 3), gnet._round(area * maxl / 2 * rng.uniform(0.6, 1.4), 6)]]
            pts.append([maxl + 1.0, gnet._round(pts[1][1] + area * (maxl / 2 + 1) * rng.uniform(0.6, 1.4), 6)])
            spec['curves']['VC%d' % (k + 1)] = {'type': 'VOLUME', 'points': pts}
            tk['vol_curve'] = 'VC%d' % (k + 1)
        spec['tanks'].append(tk)
        spec['pipes'].append({'name': 'PT%d' % (k + 1), 'start': 'J%d' % (k + 1), 'end': tk['name'], 'length': 100.0, 'diameter': 0.3,
                              'roughness': 120.0, 'minor_loss': 0.0, 'status': 'OPEN', 'cv': False})
    spec['pipes'].append({'name': 'P12', 'start': 'J1', 'end': 'J2', 'length': 300.0, 'diameter': 0.25, 'roughness': 110.0, 'minor_loss': 0.0,
                          'status': 'OPEN', 'cv': False})
    spec['pipes'].append({'name': 'P12b', 'start': 'J1', 'end': 'J2', 'length': 500.0, 'diameter': 0.2, 'roughness': 100.0, 'minor_loss': 0.0,
                          'status': 'OPEN', 'cv': rng.random() < 0.3})
    lift = 70.0
    spec['curves']['HC1'] = {'type': 'HEAD', 'points': [[0.0, gnet._round(lift * 1.35, 3)], [gnet._round(qd * 2.2, 4), lift],
                                                        [gnet._round(qd * 4.5, 4), gnet._round(lift * 0.3, 3)]]}
    spec['pumps'].append({'name': 'PU1', 'start': 'R1', 'end': 'J1', 'type': 'HEAD', 'curve': 'HC1', 'status': 'OPEN'})
    if rng.random() < 0.5:     # a gravity source behind a controllable pipe
        spec['reservoirs'].append({'name': 'R2', 'head': gnet._round(rng.uniform(70, 90), 3), 'pattern': None, 'coordinates': [0, 100]})
        spec['pipes'].append({'name': 'PR2', 'start': 'R2', 'end': 'J2', 'length': 800.0, 'diameter': 0.15, 'roughness': 100.0, 'minor_loss': 0.0,
                              'status': rng.choice(['OPEN', 'CLOSED']), 'cv': False})
    # controls
    ctl = []

    def add(**kw):
        kw['name'] = 'c%d' % (len(ctl) + 1)
        kw['kind'] = 'cond'
        ctl.append(kw)
    for tk in spec['tanks']:
        span = tk['max_level'] - tk['min_level']
        lo = gnet._round(tk['min_level'] + rng.uniform(0.15, 0.45) * span, 3)
        hi = gnet._round(tk['min_level'] + rng.uniform(0.55, 0.9) * span, 3)
        tgt = rng.choice(['PU1', 'PU1', 'P12b'] + (['PR2'] if len(spec['reservoirs']) > 1 else []))
        add(source=tk['name'], sattr='level', op='<', threshold=lo, target=tgt, attr='status', value='OPEN')
        add(source=tk['name'], sattr='level', op='>', threshold=hi, target=tgt, attr='status', value='CLOSED')
        if rng.random() < 0.5:     # extra thresholds that are crossed inside the same hydraulic step
            for _ in range(rng.randint(1, 3)):
                th = gnet._round(tk['min_level'] + rng.uniform(0.1, 0.95) * span, 3)
                add(source=tk['name'], sattr='level', op=rng.choice(['<', '>']), threshold=th, target=rng.choice(['P12', 'P12b']),
                    attr='status', value=rng.choice(['OPEN', 'CLOSED']), priority=rng.choice([0, 3, 6]))
        if rng.random() < 0.3:      # the same kind of threshold expressed on the tank head
            add(source=tk['name'], sattr='head', op='>', threshold=gnet._round(tk['elevation'] + hi, 3), target='P12', attr='status', value='CLOSED')
            add(source=tk['name'], sattr='head', op='<', threshold=gnet._round(tk['elevation'] + lo, 3), target='P12', attr='status', value='OPEN')
    if rng.random() < 0.45:
        # a throttle valve with a by-pass: setting controls and status controls on the same valve, with explicit priorities
        spec['junctions'].append({'name': 'J3', 'elevation': gnet._round(rng.uniform(0, 10), 3),
                                  'demands': [{'base': gnet._round(qd * 0.3, 5), 'pattern': 'DP', 'category': None}], 'coordinates': [300, 0]})
        spec['valves'].append({'name': 'V1', 'start': 'J2', 'end': 'J3', 'diameter': 0.2, 'type': 'TCV', 'minor_loss': 0.0,
                               'setting': rng.choice([2.0, 10.0, 50.0]), 'status': 'ACTIVE'})
        spec['pipes'].append({'name': 'PB', 'start': 'J2', 'end': 'J3', 'length': 400.0, 'diameter': 0.1, 'roughness': 100.0, 'minor_loss': 0.0,
                              'status': 'OPEN', 'cv': False})
        tk = spec['tanks'][0]
        span = tk['max_level'] - tk['min_level']
        prios = rng.sample([0, 1, 2, 3, 4, 5, 6], 3)
        for k_ in range(rng.randint(2, 3)):
            th = gnet._round(tk['min_level'] + rng.uniform(0.15, 0.9) * span, 3)
            if k_ == 0 or rng.random() < 0.4:
                add(source=tk['name'], sattr='level', op=rng.choice(['<', '>']), threshold=th, target='V1', attr='setting',
                    value=rng.choice([1.0, 20.0, 150.0]), priority=prios[k_])
            else:
                add(source=tk['name'], sattr='level', op=rng.choice(['<', '>']), threshold=th, target='V1', attr='status',
                    value=rng.choice(['CLOSED', 'CLOSED', 'OPEN']), priority=prios[k_])
    if rng.random() < 0.5:
        pth = gnet._round(rng.uniform(25, 45), 2)
        tgt = 'PR2' if len(spec['reservoirs']) > 1 else 'P12b'
        add(source='J2', sattr='pressure', op='<', threshold=pth, target=tgt, attr='status', value='OPEN')
        add(source='J2', sattr='pressure', op='>', threshold=gnet._round(pth + rng.uniform(15, 30), 2), target=tgt, attr='status', value='CLOSED')
    spec['controls'] = [x for x in ctl if x]
    return spec


def area_at(tk, spec, level):
    if tk['vol_curve']:
        pts = spec['curves'][tk['vol_curve']]['points']
        for (l0, v0), (l1, v1) in zip(pts, pts[1:]):
            if l0 <= level <= l1 or (l0, v0) == tuple(pts[-2]):
                return max((v1 - v0) / (l1 - l0), 1e-9)
        return max((pts[1][1] - pts[0][1]) / (pts[1][0] - pts[0][0]), 1e-9)
    return math.pi * tk['diameter'] ** 2 / 4.0


def run_case(c, rng):
    if c.index % 5 < 3:
        spec = rig_spec(rng, c.tier)
        cls = 'rig'
    else:
        # every fourth network: pumps (half of them constant-power) that deliver straight into a tank, small tanks - the tank closes
        # such a pump at its maximum level and the simulator has to give it back when the tank leaves the limit
        tp = c.index % 4 == 1
        spec = gnet.gen_spec(rng, n_tank=(1, 2), n_junc=(3, 9) if c.tier == 'quick' else (3, 18), p_pdd=0.0, p_report_all=1.0, n_valve=(0, 1),
                             steps=(8, 24), p_leak=0.0, p_tank_two_links=0.5, p_power_pump=0.5 if tp else 0.05, p_tank_pump=0.8 if tp else 0.0)
        if tp:
            for t_ in spec['tanks']:
                t_['diameter'] = min(t_['diameter'], rng.choice([4.0, 6.0, 10.0]))
            c.count('tank_pump_networks')
        spec['options']['report_timestep'] = 'ALL'
        ctrlgen.add_random_controls(spec, rng, n=(2, 6), kinds=('tank', 'tank', 'pressure'))
        if tp:
            # the usual operating rule of a tank pump, open half only: the pump runs until the tank itself stops it at its maximum
            # level, and has to come back when the level has fallen below the threshold
            tnames = dict((t_['name'], t_) for t_ in spec['tanks'])
            for pu in spec['pumps']:
                if pu['end'] in tnames and rng.random() < 0.8:
                    tk = tnames[pu['end']]
                    lo = gnet._round(tk['min_level'] + rng.uniform(0.3, 0.8) * (tk['max_level'] - tk['min_level']), 4)
                    spec['controls'].append({'kind': 'cond', 'name': 'c%d' % (len(spec['controls']) + 1), 'source': tk['name'], 'sattr': 'level', 'op': '<',
                                             'threshold': lo, 'target': pu['name'], 'attr': 'status', 'value': 'OPEN'})
        cls = 'gnet'
    conds = [cs for cs in spec['controls'] if cs['kind'] == 'cond']
    if not conds:
        c.inconclusive('no_conditional_controls')
        return
    wit = {'spec': spec}
    try:
        wn = gnet.build(spec)
    except Exception as e:
        c.violate('model_build_failed', 'building the model raised %s: %s' % (type(e).__name__, e), traceback=traceback.format_exc()[-1200:], **wit)
        return
    # a sizing edit after the controls exist: a cylindrical tank that level controls look at gets another diameter (every fifth case)
    if c.index % 5 == 2:
        watched = set(cs['source'] for cs in spec['controls'] if cs['kind'] == 'cond' and cs.get('sattr') == 'level')
        for t_ in spec['tanks']:
            if t_['name'] in watched and not t_.get('vol_curve'):
                t_['diameter'] = gnet._round(t_['diameter'] * rng.choice([0.5, 1.6, 2.0, 3.0]), 4)
                wn.get_node(t_['name']).diameter = t_['diameter']
                wn.reset_initial_values()
                c.count('tanks_resized_after_their_controls_were_made')
    tr = simobs.run_wntr(wn, deep=True)      # deep: the hook also records the user (control-commanded) status of every link per solved instant
    if tr.exception is not None:
        c.inconclusive('sim_failed: %s' % type(tr.exception).__name__)
        return
    if not simobs.converged(tr):
        c.inconclusive('sim_failed: not_converged')
        return
    res = tr.results
    P, H, S, SET, Q, D = res.node['pressure'], res.node['head'], res.link['status'], res.link['setting'], res.link['flowrate'], res.node['demand']
    times = [int(t) for t in P.index]
    tanks = {t['name']: t for t in spec['tanks']}
    links = {l['name']: l for l in spec['pipes'] + spec['pumps'] + spec['valves']}
    valve_names = set(v['name'] for v in spec['valves'])
    hyd = spec['options']['hydraulic_timestep']
    truth_hist = {cs['name']: [] for cs in conds}
    n_changes = 0
    for i, t in enumerate(times):
        c.count('instants_judged')
        if t % hyd != 0:
            c.count('partial_steps_at_thresholds')
        state = {}
        for cs in conds:
            src = cs['source']
            if src in tanks:
                tk = tanks[src]
                lvl = float(P[src].values[i])
                val = lvl if cs['sattr'] in ('level', 'pressure') else float(H[src].values[i])
                margin = HTOL + abs(float(D[src].values[i])) / area_at(tk, spec, lvl) * 2.0
            else:
                val = float(P[src].values[i]) if cs['sattr'] == 'pressure' else float(H[src].values[i])
                margin = 10 * HTOL
            d = val - cs['threshold']
            if cs['op'] in ('>', '>='):
                st = 'T' if d > margin else ('F' if d < -margin else '?')
            else:
                st = 'T' if d < -margin else ('F' if d > margin else '?')
            state[cs['name']] = (st, val, margin)
            hist = truth_hist[cs['name']]
            if hist and hist[-1] != st and st != '?' and hist[-1] != '?':
                n_changes += 1
                c.count('truth_changes')
            if st != '?':
                hist.append(st)
        for cs in conds:
            st, val, margin = state[cs['name']]
            if st != 'T':
                continue
            c.count('control_instants_definitely_true')
            c.count('tank_controls_true' if cs['source'] in tanks else 'pressure_controls_true')
            tgt, attr, want = cs['target'], cs['attr'], cs['value']
            # (ii) another control that may hold commands something else
            # A control of strictly lower priority excuses nothing.  On a valve a setting control also commands the status Active.
            is_valve = tgt in valve_names
            prio = cs.get('priority', 3)

            def conflicts(o):
                if o is cs or o['target'] != tgt or state[o['name']][0] == 'F' or o.get('priority', 3) < prio:
                    return False
                if o['attr'] == attr:
                    return o['value'] != want
                return is_valve and attr == 'status' and o['attr'] == 'setting' and want != 'ACTIVE'
            rivals = [o for o in conds if conflicts(o)]
            if rivals:
                c.count('skipped_conflicting_controls')
                continue
            if any(o is not cs and o['target'] == tgt and state[o['name']][0] != 'F' and o.get('priority', 3) < prio and
                   (o['attr'] != attr or o['value'] != want) for o in conds):
                c.count('outranked_rival_instants')
            if attr == 'status':
                sv = int(S[tgt].values[i])
                have = 'CLOSED' if sv == 0 else ('ACTIVE' if (is_valve and sv == 2) else 'OPEN')
            else:
                have = float(SET[tgt].values[i])
            ok = (have == want) if attr == 'status' else abs(have - want) <= 1e-9 * max(1.0, abs(want))
            l = links[tgt]
            if attr == 'status' and want == 'CLOSED':
                c.count('commanded_closed_checked')
            elif attr == 'status':
                c.count('commanded_open_checked')
            if ok:
                continue
            if attr == 'status' and want == 'OPEN':
                # (i) legitimate internal closures, re-derived from the reported heads
                hs, he = float(H[l['start']].values[i]), float(H[l['end']].values[i])
                if l.get('cv') and he >= hs - HTOL:
                    c.count('excused_check_valve')
                    continue
                if tgt in [p['name'] for p in spec['pumps']]:
                    if l.get('type') == 'HEAD':
                        A = ref.pump_fit([tuple(p_) for p_ in spec['curves'][l['curve']]['points']])[0]
                        if he - hs >= A - 10 * HTOL:
                            c.count('excused_pump_shutoff')
                            continue
                    elif he - hs > 1e6:
                        continue
                excused = False
                for end, sign in ((l['start'], -1), (l['end'], +1)):
                    if end in tanks:
                        tk = tanks[end]
                        lvl = float(P[end].values[i])
                        other_h = he if end == l['start'] else hs
                        own_h = hs if end == l['start'] else he
                        if lvl <= tk['min_level'] + 10 * HTOL and own_h >= other_h - HTOL:     # would drain an empty tank
                            excused = True
                        if lvl >= tk['max_level'] - 10 * HTOL and own_h <= other_h + HTOL:     # would fill a full tank
                            excused = True
                        if tgt in [p_['name'] for p_ in spec['pumps']]:
                            # a pump moves water from its start to its end whatever the heads are: into a full tank / out of an empty one
                            if (end == l['end'] and lvl >= tk['max_level'] - 10 * HTOL) or (end == l['start'] and lvl <= tk['min_level'] + 10 * HTOL):
                                excused = True
                if excused:
                    c.count('excused_tank_limit')
                    continue
            c.violate('control_true_but_target_differs',
                      'at solved instant t = %s s control %s (IF %s %s %s %s THEN %s %s = %s) holds: %s = %.6f (margin %.2g) but the target reports %s' % (
                          t, cs['name'], cs['source'], cs['sattr'], cs['op'], cs['threshold'], tgt, attr, want, cs['sattr'], val, margin, have),
                      instant=t, control=cs, observed=have, source_value=val, previous_instants=times[max(0, i - 3):i + 1], **wit)
            if len(c.violations) >= 3:
                return
        # overshoot: a tank-level control that has just changed its target must not be far beyond its threshold
        if i > 0:
            for cs in conds:
                if cs['source'] not in tanks or cs['attr'] != 'status':
                    continue
                st, val, margin = state[cs['name']]
                if st != 'T':
                    continue
                tgt = cs['target']
                # the control-commanded (user) status observed at the save_results hook: a link that was only held closed
                # by its check valve / shut-off rule / tank limit was not switched by the control
                if len(tr.saved) != len(times):
                    continue
                prev = 'CLOSED' if tr.saved[i - 1]['user_status'][tgt] == 0 else 'OPEN'
                now = 'CLOSED' if tr.saved[i]['user_status'][tgt] == 0 else 'OPEN'
                if prev == cs['value'] or now != cs['value']:
                    continue
                rprev = 'CLOSED' if int(S[tgt].values[i - 1]) == 0 else 'OPEN'
                rnow = 'CLOSED' if int(S[tgt].values[i]) == 0 else 'OPEN'
                if rprev == cs['value'] or rnow != cs['value']:
                    continue        # the reported status did not change with it (the link was/is held by an internal rule): no partial step is needed
                if cs['value'] == 'OPEN' and tr.saved[i - 1]['internal_status'].get(tgt) == 0:
                    # the link was held closed by its own check valve / pump rule / a tank limit at the previous instant: commanding it
                    # open changed nothing until that internal rule released it (at a regular step), so no partial step was due
                    c.count('overshoot_skipped_internal_release')
                    continue
                tk = tanks[cs['source']]
                lvl_prev = float(P[cs['source']].values[i - 1]) if cs['sattr'] in ('level', 'pressure') else float(H[cs['source']].values[i - 1])
                was_true = (lvl_prev - cs['threshold'] > 0) if cs['op'] in ('>', '>=') else (lvl_prev - cs['threshold'] < 0)
                if was_true:
                    continue        # it held before (the target was switched by something else): no crossing in this step
                if abs(lvl_prev - cs['threshold']) <= margin:
                    # the previous instant sat on the threshold itself (e.g. init_level == threshold): the crossing is a zero-length
                    # step, which neither engine inserts
                    c.count('overshoot_skipped_started_on_threshold')
                    continue
                # other controls on the same target could have caused the switch: only judge when this is the only true one
                others = [o for o in conds if o is not cs and o['target'] == tgt and state[o['name']][0] != 'F']
                if others:
                    continue
                c.count('overshoot_checked')
                lvl = float(P[cs['source']].values[i]) if cs['sattr'] in ('level', 'pressure') else val
                over = abs(val - cs['threshold'])
                q = max(abs(float(D[cs['source']].values[i])), abs(float(D[cs['source']].values[i - 1])))
                allow = HTOL + q / area_at(tk, spec, float(P[cs['source']].values[i])) * 2.0
                if over > allow:
                    kind = 'tank_threshold_overshot'
                    if tk['vol_curve']:
                        ends = (spec['curves'][tk['vol_curve']]['points'][0][0], spec['curves'][tk['vol_curve']]['points'][-1][0])
                        pts_ = spec['curves'][tk['vol_curve']]['points']
                        lv_, vv_ = [p_[0] for p_ in pts_], [p_[1] for p_ in pts_]
                        t_prev = times[i - 1]
                        next_grid = (t_prev // hyd + 1) * hyd
                        v_pred = ref.interp(float(P[cs['source']].values[i - 1]), lv_, vv_) + float(D[cs['source']].values[i - 1]) * (next_grid - t_prev)
                        if any(abs(float(P[cs['source']].values[i]) - e_) <= 1e-9 for e_ in ends) or v_pred >= vv_[-1] or v_pred <= vv_[0]:
                            # the full hydraulic step would carry the tank beyond the end of its volume curve (clamped there)
                            kind = 'tank_threshold_overshot_volume_curve_end'
                    c.violate(kind,
                              'control %s switched %s to %s at t = %s s with %s %s = %.5f, %.5f beyond the threshold %s (2 s of tank flow = %.5f); previous solved instant %s s' % (
                                  cs['name'], tgt, cs['value'], t, cs['source'], cs['sattr'], val, over, cs['threshold'], allow, times[i - 1]),
                              instant=t, control=cs, **wit)
                    if len(c.violations) >= 3:
                        return
    kinds = sorted(set(('tank' if cs['source'] in tanks else 'pressure') + cs['op'] + cs['value'].__str__()[:1] for cs in conds))
    c.set_sig(cls, gnet.signature(spec) if cls == 'gnet' else '%d%s' % (len(spec['tanks']), len(spec['reservoirs'])), ','.join(kinds), len(conds), min(n_changes, 8))
    c.nontrivial = n_changes > 0
    c.sample = {'class': cls, 'controls': conds[:4], 'solved_instants': len(times), 'truth_changes': n_changes}
