"""C03 - WNTRSimulator and EpanetSimulator agree on models both support.

Three differential monitors (deciding step: comparison of the two engines' reported tables):
 1. engines:  G-net restricted to the common feature set -> WNTRSimulator vs EpanetSimulator at every report
              step (heads, pressures, demands, flows, tank levels, link-status timelines);
 2. units:    one model run by EpanetSimulator with options.hydraulic.inpfile_units = each of the ten flow
              units; the ten SI result sets must agree (a wrong factor for one unit or element type is an outlier);
 3. reader:   INP text (example files; text emitted by this harness from a G-net spec in a chosen unit system
              with the reference unit table) is (a) run directly through the EPANET toolkit and read back with
              BinFile, (b) read by WaterNetworkModel(inp) and simulated with EpanetSimulator: (a) = (b).
"""
import copy
import math
import sys
import os
import shutil
import tempfile
import traceback

from vlib.gen import net as gnet, ctrlgen
from vlib.ref import hyd as ref
from vlib import simobs

ID = 'C03'
LEVEL = 'exploration'
UNITS = ['CFS', 'GPM', 'MGD', 'IMGD', 'AFD', 'LPS', 'LPM', 'MLD', 'CMH', 'CMD']
RULE = ('G-net restricted to the common feature set (H-W pipes, reservoirs incl. head patterns, cylindrical and volume-curve tanks, 1- and '
        '3-point head pumps and power pumps at speed 1, PRV/PSV/FCV/TCV, check valves, closed pipes, patterns, pattern_start, start_clocktime, '
        'time / clock-time / tank-level / pressure controls, rules, DD and PDD); monitor by case index: engines (50 %), units (25 %, all ten '
        'units per model), reader (25 %: own INP emitter in a random unit system, and example files); signature = monitor + structural class + '
        'options; non-trivial = the model has a tank, pump or valve and at least 4 report steps')
ASSUMPTIONS = ['engines: heads/pressures within 0.01 m + 3e-4 of the head (the engines use constants that differ in the 4th digit: 10.667 vs 10.66683, g, hp) + 2 s of tank flow, flows/demands within 1e-3 of the largest flow + 1e-5 m3/s, compared at report steps at '
               'which both engines report the same open/closed state for every link; a status disagreement confined to a single report step next to a '
               'transition of the same link is a near tie (both engines switch within one step of each other); persistent disagreement is a violation',
               'units and reader monitors compare EPANET with EPANET: heads/pressures 5e-3 m + 3e-4 of the head, flows 3e-4 relative + 3e-3 of the largest flow: EPANET itself converts flow units with 4-5 digit constants (IMGDperCFS 0.5382, AFDperCFS 1.9837 ...), which limits its own unit independence to ~1e-4 in flows and a few mm in tank levels',
               'EPANET warnings (unbalanced, negative pressures, disconnected) and non-converged WNTR runs make a case inconclusive',
               'trusted: libepanet 2.2 shipped in the repository; the reference unit factors of vlib/props/c17 for the INP emitter']
FLOORS = {'quick': {'conclusive': 100, 'distinct_nontrivial': 60,
                    'counters': {'engine_cases': 60, 'engine_steps_compared': 150, 'engine_values_compared': 5000, 'status_points_compared': 1500,
                                 'units_cases': 30, 'unit_runs': 150, 'unit_values_compared': 20000, 'reader_cases': 30,
                                 'reader_values_compared': 50000, 'pdd_cases': 6, 'controls_cases': 20}},
          'thorough': {'conclusive': 1200, 'distinct_nontrivial': 700,
                       'counters': {'engine_cases': 800, 'engine_steps_compared': 2000, 'engine_values_compared': 70000,
                                    'status_points_compared': 20000, 'units_cases': 400, 'unit_runs': 2000, 'unit_values_compared': 250000,
                                    'reader_cases': 400, 'reader_values_compared': 600000, 'pdd_cases': 80, 'controls_cases': 250}}}
CASE_TIMEOUT = {'quick': 400, 'thorough': 900}
EXAMPLES = ['Net1.inp', 'Net2.inp', 'Net3.inp']


# appended to RULE in the evidence (vlib/runner.py)
RULE_ADDENDUM = 'Added in rounds 4-5: any start clock time (noon and midnight hours over-weighted), clock-time controls at times the run passes, rules on the time of day (windows across midnight), the default demand pattern; pattern interpolation is switched off (not a common feature). Round 6: control-valve stations (Active TCV/PRV/FCV with a normally closed by-pass) as the only way into a storage-less zone; Tank.overflow switched off.'

def n_cases(tier):
    return 240 if tier == 'quick' else 3200


def common_spec(rng, tier, controls=True, limits=False):
    """limits: a bucket aimed at tank level limits - smaller tanks that start near a limit, longer runs, more check valves
    (values are compared up to the first contact with a limit, tank levels coarsely after it)."""
    spec = gnet.gen_spec(rng, n_junc=(3, 10) if tier == 'quick' else (3, 24), n_tank=(1, 2) if limits else (0, 2), n_valve=(0, 2), pump_curves=(1, 3),
                         p_power_pump=0.15, p_leak=0.0, p_report_all=0.0, p_pdd=0.25, p_pdd_override=0.0, steps=(10, 24) if limits else (4, 12),
                         p_cv=0.3 if limits else 0.1, p_closed=0.08, hyd_steps=(900, 1800, 3600), p_tank_pump=0.1)
    # 2-point pump curves are not a common feature (EPANET treats them as custom curves)
    for cn, cv in spec['curves'].items():
        if cv['type'] == 'HEAD' and len(cv['points']) == 2:
            q, h = cv['points'][1]
            cv['points'] = [[q, h]]
    for t in spec['tanks']:
        if t['diameter'] < 25.0 or limits:      # a tank that fills in minutes makes the 1 s granularity of WNTR's partial steps visible
            new_d = rng.choice([12.0, 16.0, 20.0, 25.0]) if limits else rng.choice([30.0, 40.0, 50.0])
            if t['vol_curve']:
                f = (new_d / t['diameter']) ** 2
                for pt in spec['curves'][t['vol_curve']]['points']:
                    pt[1] = gnet._round(pt[1] * f, 9)
            t['diameter'] = new_d
    for t in spec['tanks']:
        span = t['max_level'] - t['min_level']
        if limits:
            t['init_level'] = gnet._round(t['min_level'] + rng.choice([rng.uniform(0.05, 0.2), rng.uniform(0.8, 0.95)]) * span, 3)
        elif not (t['min_level'] + 0.25 * span <= t['init_level'] <= t['max_level'] - 0.25 * span):
            t['init_level'] = gnet._round(t['min_level'] + rng.uniform(0.35, 0.65) * span, 3)
    o = spec['options']
    o['pattern_interpolation'] = False      # a WNTRSimulator-only option, not a common feature
    for t_ in spec['tanks']:
        t_['overflow'] = False                # EPANET lets such a tank spill, WNTR closes its inlets: not a common feature
    # side stream (content-seeded, the main stream stays what it was): start clock times in the noon and midnight hours, and
    # controls / rules on the time of day that the run passes
    import json as _json
    import random as _random
    import zlib as _zlib
    side = _random.Random(_zlib.crc32(_json.dumps(spec, sort_keys=True, default=str).encode()))
    if side.random() < 0.2:
        o['start_clocktime'] = side.choice([12 * 3600, 12 * 3600 + 1800, 12 * 3600 + 3599, 1800, 59, 11 * 3600 + 3540, 23 * 3600 + 3599,
                                            60 * side.randrange(0, 1440)])
    if o['demand_model'] == 'PDD':
        o['minimum_pressure'] = rng.choice([0.0, 2.0, 5.0])
        o['required_pressure'] = o['minimum_pressure'] + rng.choice([10.0, 15.0, 25.0])
        o['pressure_exponent'] = 0.5
    o['extra_hydraulic'] = {'accuracy': 1e-6, 'trials': 200}
    if side.random() < 0.12 and spec['patterns']:
        o['extra_hydraulic']['pattern'] = sorted(spec['patterns'])[0]      # default pattern of demands that name none
    if isinstance(o['report_timestep'], int) and o['report_timestep'] < o['hydraulic_timestep']:
        # both engines shorten the hydraulic step to the report step; EPANET then also caps the rule step at it, WNTR does not
        o['rule_timestep'] = min(o['rule_timestep'], o['report_timestep'])
    if controls and rng.random() < 0.7:
        ctrlgen.add_random_controls(spec, rng, n=(1, 4), kinds=('time', 'time', 'clock', 'tank', 'tank', 'tank', 'pressure', 'rule_time', 'rule_tank', 'rule_time', 'setting', 'setting', 'rule_setting', 'rule_setting'), offgrid=0.3)
    if controls and spec['valves'] and rng.random() < 0.35:
        # rules that set a valve setting in THEN and ELSE: every clause has its own unit conversion in the INP writer and its own
        # hidden "activate the valve" companion in the simulator
        ctrlgen.add_random_controls(spec, rng, n=(1, 1), kinds=('rule_setting',), offgrid=0.3)
    if side.random() < 0.12:
        # a control-valve station (Active valve with a normally closed parallel by-pass) as the only way into a zone without storage
        gnet.add_valve_station(spec, side)
    if controls and side.random() < (0.6 if o['start_clocktime'] else 0.2):
        ctrlgen.add_random_controls(spec, side, n=(1, 2), kinds=('clock', 'rule_clock', 'rule_clock'), offgrid=0.3)
    # closing a bridge cuts junctions off from every source: EPANET then reports 'disconnected' heads of -1e6 while WNTR zeroes
    # them (not a common feature).  Closed pipes and control targets are therefore taken from links that lie on a loop.
    import networkx as nx
    G = nx.MultiGraph()
    for l in spec['pipes'] + spec['pumps'] + spec['valves']:
        G.add_edge(l['start'], l['end'], key=l['name'])
    bridges = set()
    simple = nx.Graph(G)
    for a_, b_ in nx.bridges(simple):
        if G.number_of_edges(a_, b_) == 1:
            bridges.add(list(G[a_][b_].keys())[0])
    loop_links = [l['name'] for l in spec['pipes'] if l['name'] not in bridges]
    for p in spec['pipes']:
        if p['status'] == 'CLOSED' and p['name'] in bridges:
            p['status'] = 'OPEN'
    kept = []
    for cs in spec['controls']:
        acts = cs['then'] + cs.get('else', []) if cs['kind'] == 'rule' else [cs]
        ok = True
        for a_ in acts:
            if a_.get('attr', 'status') == 'status' and a_['target'] in bridges:
                if loop_links:
                    a_['target'] = rng.choice(loop_links)
                else:
                    ok = False
        if ok:
            kept.append(cs)
    spec['controls'] = kept
    # one control source per target: two controls that hold at the same time and command different states of one link are
    # resolved by evaluation order, which is not a common feature of the engines
    owner, keep = {}, []
    for cs in spec['controls']:
        tg = [a['target'] for a in cs['then'] + cs.get('else', [])] if cs['kind'] == 'rule' else [cs['target']]
        src = cs.get('source') or cs['name']
        if cs['kind'] == 'rule':
            src = 'rule:' + cs['name']
        if all(owner.get(t_, src) == src for t_ in tg):
            for t_ in tg:
                owner[t_] = src
            keep.append(cs)
    spec['controls'] = keep
    # EPANET refuses controls and rules on check-valve pipes (error 207)
    targets = set()
    for cs in spec['controls']:
        if cs['kind'] == 'rule':
            targets.update(a['target'] for a in cs['then'] + cs.get('else', []))
        else:
            targets.add(cs['target'])
    for p in spec['pipes']:
        if p['name'] in targets:
            p['cv'] = False
        if p['cv']:
            p['status'] = 'OPEN'      # an INP file has one status field per pipe: CV or CLOSED, not both
    return spec


# ------------------------------------------------------------------------------------------------
def epanet_clean(tr):
    """EPANET ran without the conditions under which its results are not a reference: unbalanced steps, disconnected nodes
    (reported with pressures of about -1e6).  Plain negative pressures are a valid demand-driven solution in both engines
    (swept over seeds 0-14 with them admitted: no additional disagreement) and stay in."""
    if not tr.ok:
        return False
    w = ' '.join(tr.warnings).lower()
    if any(k in w for k in ('unbalanced', 'disconnected', 'cannot', 'error')):
        return False
    try:
        if float(tr.results.node['pressure'].min().min()) < -1000.0:       # disconnected nodes are reported with about -1e6
            return False
    except Exception:
        return False
    return True


def epanet_balanced(spec, res):
    """The reference must itself be a solution: at every junction and step EPANET's reported link flows balance its reported
    demand (EPANET has been seen to return, without any warning, flows that miss the balance by litres per second)."""
    import numpy as np
    Q, D = res.link['flowrate'], res.node['demand']
    qmax = max(1e-4, float(np.abs(Q.values).max()))
    net = {j['name']: np.zeros(len(Q.index)) for j in spec['junctions']}
    tot = {j['name']: np.zeros(len(Q.index)) for j in spec['junctions']}
    for l_ in spec['pipes'] + spec['pumps'] + spec['valves']:
        q = Q[l_['name']].values
        for end, sgn in ((l_['end'], 1.0), (l_['start'], -1.0)):
            if end in net:
                net[end] = net[end] + sgn * q
                tot[end] = tot[end] + np.abs(q)
    for n, v in net.items():
        live = tot[n] > 1e-9          # a junction cut off from everything keeps its nominal demand in EPANET's tables
        if live.any() and float(np.abs(v - D[n].values)[live].max()) > 1e-5 + 2e-3 * qmax:
            if os.environ.get('C03_DEBUG_BAL'):
                sys.stderr.write('UNBAL %s imbalance %.3g qmax %.3g demand %.3g\n' % (n, float(np.abs(v - D[n].values)[live].max()), qmax, float(np.abs(D[n].values).max())))
            return False
    return True


def link_closed(res, ln, i):
    return int(res.link['status'][ln].values[i]) == 0


def run_case(c, rng):
    mode = ['engines', 'units', 'engines', 'reader'][c.index % 4]
    if mode == 'engines':
        return run_engines(c, rng)
    if mode == 'units':
        return run_units(c, rng)
    return run_reader(c, rng)


def valve_forced_open(spec, rw, re_, v, k):
    """WNTR reports control valve v Open at step k although its own setting is exceeded, EPANET keeps it active/closed."""
    sw, se = int(rw.link['status'][v['name']].values[k]), int(re_.link['status'][v['name']].values[k])
    if not (sw == 1 and se in (0, 2)):
        return False
    qv = float(rw.link['flowrate'][v['name']].values[k])
    cur = float(rw.link['setting'][v['name']].values[k])      # controls may have changed the setting since the start
    return (v['type'] == 'FCV' and qv > cur + 1e-5) or \
           (v['type'] == 'PRV' and float(rw.node['pressure'][v['end']].values[k]) > cur + 0.01) or \
           (v['type'] == 'PSV' and float(rw.node['pressure'][v['start']].values[k]) < cur - 0.01)


def junc_names_all(spec):
    return [j['name'] for j in spec['junctions']]


def side_without_source(topo, links, rw, v, k):
    """True when, with the valve itself taken out, the side WNTR's _ValveSourceChecker looks at has no tank or reservoir
    (PRV: upstream, PSV: downstream, FCV: either) on the link statuses WNTR reports at step k."""
    closed = set(l2 for l2 in links if l2 != v['name'] and link_closed(rw, l2, k)) | {v['name']}
    conn = topo.connected_nodes(closed)
    up, down = v['start'] not in conn, v['end'] not in conn
    return {'PRV': up, 'PSV': down, 'FCV': up or down}.get(v['type'], False)


def run_engines(c, rng):
    limits = c.index % 16 in (6, 14)
    if c.index % 16 == 10:
        spec = rig_spec(rng)
        c.count('valve_rig_cases')
    else:
        spec = common_spec(rng, c.tier, limits=limits)
    if limits:
        c.count('tank_limit_bucket_cases')
    c.count('engine_cases')
    o = spec['options']
    if o['demand_model'] == 'PDD':
        c.count('pdd_cases')
    if spec['controls']:
        c.count('controls_cases')
    wit = {'spec': spec}
    wn = gnet.build(spec)
    c.set_sig('engines', gnet.signature(spec), o['demand_model'], len(spec['controls']))
    c.sample = {'monitor': 'engines', 'network': gnet.signature(spec), 'controls': spec['controls'][:3]}
    tr_e = simobs.run_epanet(copy.deepcopy(wn))
    if tr_e.exception is not None:
        c.inconclusive('epanet_failed: %s' % str(tr_e.exception)[:80])
        return
    if not epanet_clean(tr_e):
        c.inconclusive('epanet_warnings')
        return
    if not epanet_balanced(spec, tr_e.results):
        c.inconclusive('epanet_solution_does_not_balance')
        return
    tr_w = simobs.run_wntr(wn, deep=False)
    if not simobs.converged(tr_w):
        c.inconclusive('wntr_not_converged')
        return
    rw, re_ = tr_w.results, tr_e.results
    # tanks whose level moves by more than a quarter of their range within one hydraulic step amplify the one-second granularity
    # of WNTR's partial steps (and EPANET's own event handling) into decimetres: such rigs say nothing about the engines
    for tk in spec['tanks']:
        area = math.pi * tk['diameter'] ** 2 / 4.0
        if tk['vol_curve']:
            pts = spec['curves'][tk['vol_curve']]['points']
            area = min((v1 - v0) / (l1 - l0) for (l0, v0), (l1, v1) in zip(pts, pts[1:]))
        if float(rw.node['demand'][tk['name']].abs().max()) * o['hydraulic_timestep'] / area > 0.25 * (tk['max_level'] - tk['min_level']):
            c.inconclusive('tank_exchanges_quarter_of_its_range_per_step')
            return
    times = [int(t) for t in rw.node['head'].index]
    if [int(t) for t in re_.node['head'].index] != times:
        c.violate('report_times_differ', 'WNTR reports at %s, EPANET at %s' % (times[:12], [int(t) for t in re_.node['head'].index][:12]), **wit)
        return
    links = [l['name'] for l in spec['pipes'] + spec['pumps'] + spec['valves']]
    nodes = list(rw.node['head'].columns)
    # the reference must itself be a solution: an open constant-power pump delivers its power (P = rho g q dh).  EPANET sometimes
    # parks such a pump at zero flow (status Open, q ~ 1e-18, any head gain): that is no solution of the pump's own law
    for p in spec['pumps']:
        if p['type'] != 'POWER':
            continue
        for k in range(len(times)):
            if int(re_.link['status'][p['name']].values[k]) == 0:
                continue
            qe = float(re_.link['flowrate'][p['name']].values[k])
            dh = float(re_.node['head'][p['end']].values[k]) - float(re_.node['head'][p['start']].values[k])
            if abs(9802.0 * qe * dh - p['power']) > 0.05 * p['power']:
                c.inconclusive('epanet_power_pump_off_its_power_law')
                return
            # dh = P / (rho g q): at small flows the head gain is so steep in q that flows agreeing to their own tolerance
            # (1e-5 + 1e-3 q) still leave metres of head difference - such operating points decide nothing
            qa = max(abs(qe), 1e-9)
            if p['power'] / 9810.0 * (1e-5 / qa ** 2 + 1e-3 / qa) > 0.5:
                c.inconclusive('power_pump_operating_point_ill_conditioned')
                return
    # ... a tank that sits at a level limit cannot keep filling (draining): when a user control re-opens the link that the tank-full
    # rule has just closed, EPANET reports the inflow and clips the level - a state that loses water
    for tk_ in spec['tanks']:
        Le_, De_ = re_.node['pressure'][tk_['name']].values, re_.node['demand'][tk_['name']].values
        for k in range(len(times) - 1):
            if (Le_[k] >= tk_['max_level'] - 1e-3 and Le_[k + 1] >= tk_['max_level'] - 1e-3 and De_[k] > 1e-4) or \
                    (Le_[k] <= tk_['min_level'] + 1e-3 and Le_[k + 1] <= tk_['min_level'] + 1e-3 and De_[k] < -1e-4):
                c.inconclusive('epanet_tank_at_limit_keeps_exchanging')
                return
    # ... an active FCV throttles: it never adds head.  EPANET has been seen to report an FCV Active at a setting above the flow the
    # network can deliver, with the head RISING across the valve (a pump in disguise) right after a rule changed the setting
    for v_ in spec['valves']:
        if v_['type'] != 'FCV':
            continue
        for k in range(len(times)):
            if int(re_.link['status'][v_['name']].values[k]) == 2:
                qv_ = float(re_.link['flowrate'][v_['name']].values[k])
                open_loss = ref.minor_k(v_['minor_loss'], v_['diameter']) * qv_ * qv_
                dh_ = float(re_.node['head'][v_['start']].values[k]) - float(re_.node['head'][v_['end']].values[k])
                if dh_ < 0.98 * open_loss - 0.01:      # less loss than the fully open valve has at that flow
                    c.inconclusive('epanet_active_fcv_adds_head')
                    return
    # ... and under pressure-dependent demand every junction's delivered demand lies on the pressure-demand curve at EPANET's own
    # pressure (EPANET 2.2 has been seen to deliver the full demand at t = 0 to a junction below the required pressure)
    if o['demand_model'] == 'PDD':
        pmin_, preq_, ex_ = o['minimum_pressure'], o['required_pressure'], o['pressure_exponent']
        for jn_ in junc_names_all(spec):
            jobj = wn.get_node(jn_)
            for k in range(len(times)):
                D_ = ref.requested_demand(wn, jobj, times[k])
                if D_ <= 0:
                    continue
                pe_ = float(re_.node['pressure'][jn_].values[k])
                if pe_ < -100:
                    continue
                f_ = 0.0 if pe_ <= pmin_ else (1.0 if pe_ >= preq_ else ((pe_ - pmin_) / (preq_ - pmin_)) ** ex_)
                if abs(float(re_.node['demand'][jn_].values[k]) - D_ * f_) > 0.03 * D_ + 1e-6:
                    c.inconclusive('epanet_pdd_solution_off_the_pressure_demand_curve')
                    return
    # known mechanism (C02 findings): an open pump carrying reverse flow in WNTR
    for p in spec['pumps']:
        if float(rw.link['flowrate'][p['name']].min()) < -1e-6:
            c.violate('differs_power_pump_reverse_flow' if p['type'] == 'POWER' else 'differs_head_pump_reverse_flow', 'WNTR reports reverse flow %.4g m3/s through open pump %s (EPANET closes a pump on reverse flow)' % (
                float(rw.link['flowrate'][p['name']].min()), p['name']), **wit)
            return
    qmax = max(1e-4, float(rw.link['flowrate'].abs().max().max()))
    res_names = set(r['name'] for r in spec['reservoirs'])
    junc_names = set(j['name'] for j in spec['junctions'])
    incident = {n: [l_['name'] for l_ in spec['pipes'] + spec['pumps'] + spec['valves'] if n in (l_['start'], l_['end'])] for n in junc_names}
    topo = ref.Topo(wn)
    mismatch = {ln: [] for ln in links}
    limit_step = None
    # a tank sitting on a level limit opens and closes its links in a fast limit cycle whose phase is not comparable
    # between engines: values are compared up to the first report step at which a tank touches a limit in either engine
    for tk in spec['tanks']:
        for i in range(len(times)):
            for r_ in (rw, re_):
                lv = float(r_.node['pressure'][tk['name']].values[i])
                if lv <= tk['min_level'] + 0.02 or lv >= tk['max_level'] - 0.02:
                    if limit_step is None or i < limit_step:
                        limit_step = i
                        c.count('stopped_at_tank_limit')
                    break
        # ... also between report steps: every accepted WNTR step was recorded at the update_network_previous_values hook
        for acc in tr_w.accepted:
            lv = acc['tank_head'][tk['name']] - tk['elevation']
            if lv <= tk['min_level'] + 0.02 or lv >= tk['max_level'] - 0.02:
                i = next((k for k, t_ in enumerate(times) if t_ >= acc['t']), len(times))
                if limit_step is None or i < limit_step:
                    limit_step = i
                    c.count('stopped_at_tank_limit')
                break
    for i, t in enumerate(times):
        if limit_step is not None and i >= limit_step:
            break
        for ln in links:
            c.count('status_points_compared')
            if link_closed(rw, ln, i) != link_closed(re_, ln, i):
                if abs(float(rw.link['flowrate'][ln].values[i])) <= 2.83168e-6 and abs(float(re_.link['flowrate'][ln].values[i])) <= 2.83168e-6:     # Qtol, the engines' own status tolerance
                    c.count('immaterial_status_mismatch')     # closed vs open with no flow: the same hydraulic state
                    continue
                mismatch[ln].append(i)
    persistent = {}
    bistable = []
    by_name = {l['name']: l for l in spec['pipes'] + spec['pumps'] + spec['valves']}
    for ln, idx in mismatch.items():
        if not idx:
            continue
        # runs of consecutive mismatching report steps
        runs, cur = [], [idx[0]]
        for k in idx[1:]:
            if k == cur[-1] + 1:
                cur.append(k)
            else:
                runs.append(cur)
                cur = [k]
        runs.append(cur)
        for r_ in runs:
            if len(r_) >= 2:
                l_ = by_name[ln]
                if l_.get('cv'):
                    # a check valve has two self-consistent states when other status-dependent elements (FCV, pumps, tanks) are around:
                    # closed with adverse head, or open with forward flow.  If each engine reports one of them consistently, the
                    # hydraulic equations simply have two solutions - neither engine is wrong
                    ok = True
                    for k in r_:
                        hs, he = float(rw.node['head'][l_['start']].values[k]), float(rw.node['head'][l_['end']].values[k])
                        qw, qe = float(rw.link['flowrate'][ln].values[k]), float(re_.link['flowrate'][ln].values[k])
                        w_closed = link_closed(rw, ln, k)
                        if w_closed and not (hs - he < 1.524e-4 and qe > 0):
                            ok = False
                        if not w_closed and not (qw > 0 and float(re_.node['head'][l_['start']].values[k]) - float(re_.node['head'][l_['end']].values[k]) < 1.524e-4):
                            ok = False
                    if ok:
                        c.count('bistable_check_valve_steps', len(r_))
                        bistable.append(r_[0])
                        continue
                # a junction-pressure control whose target changes its own source pressure has two self-consistent states
                # (e.g. pump closed <-> pressure low <-> 'close below p' holds; pump open <-> pressure high <-> it does not):
                # if each engine's reported state agrees with the control evaluated on that engine's own pressures, the
                # control semantics admit both and neither engine is wrong
                pcs = [cs for cs in spec['controls'] if cs['kind'] == 'cond' and cs['target'] == ln and cs['attr'] == 'status'
                       and cs['source'].startswith('J') and cs['sattr'] == 'pressure']
                if len(pcs) == 1 and not [cs for cs in spec['controls'] if cs is not pcs[0] and (cs.get('target') == ln or any(
                        a_.get('target') == ln for a_ in cs.get('then', []) + cs.get('else', [])))]:
                    cs = pcs[0]

                    def consistent(res, k):
                        pv = float(res.node['pressure'][cs['source']].values[k])
                        holds = pv < cs['threshold'] if cs['op'] in ('<', '<=') else pv > cs['threshold']
                        return holds == (link_closed(res, ln, k) == (cs['value'] == 'CLOSED'))
                    if all(consistent(rw, k) and consistent(re_, k) for k in r_):
                        c.count('bistable_pressure_control_steps', len(r_))
                        bistable.append(r_[0])
                        continue
                persistent[ln] = r_
            else:
                c.count('near_tie_status_steps')
    if persistent:
        ln, r_ = sorted(persistent.items())[0]
        kind = 'status_timelines_diverge'
        # a pressure control reading a junction that is cut off from every source: WNTR zeroes such a junction (C09), EPANET lets
        # it float at a neighbouring head - the two engines legitimately feed different pressures to the control
        for cs in spec['controls']:
            if cs['kind'] == 'cond' and cs['target'] == ln and cs['source'].startswith('J'):
                for k in range(0, r_[0] + 1):
                    closed_w = set(l2 for l2 in links if link_closed(rw, l2, k))
                    if cs['source'] not in topo.connected_nodes(closed_w):
                        c.inconclusive('pressure_control_source_cut_off_from_sources')
                        return
        # mechanism test: the link is the target of a junction-pressure control whose condition is false on the state WNTR
        # itself reports, yet WNTR shows the commanded status and EPANET does not: the control fired on an intermediate
        # (status-inconsistent) trial solution of that time step and latched
        k0 = r_[0]
        for cs in spec['controls']:
            if cs['kind'] == 'cond' and cs['target'] == ln and cs['attr'] == 'status' and cs['source'].startswith('J'):
                pw = float(rw.node['pressure'][cs['source']].values[k0])
                holds = pw < cs['threshold'] if cs['op'] in ('<', '<=') else pw > cs['threshold']
                commanded_closed = cs['value'] == 'CLOSED'
                if not holds and link_closed(rw, ln, k0) == commanded_closed and link_closed(re_, ln, k0) != commanded_closed:
                    kind = 'status_diverges_pressure_control_fired_on_trial_solution'
        # mechanism test (known finding): a pattern change strictly inside a hydraulic step before the divergence - EPANET re-solves
        # there, WNTR does not, so tank levels (and the level controls that read them) part company
        pts_, ps_, hyd_ = o['pattern_timestep'], o['pattern_start'], o['hydraulic_timestep']
        if (pts_ % hyd_ != 0 or ps_ % hyd_ != 0) and k0 > 0 and (spec['tanks'] or any(cs.get('source', '').startswith('T') for cs in spec['controls'])):
            changes = [m_ * pts_ - ps_ for m_ in range(0, int((times[k0] + ps_) // pts_) + 2)]
            if any(0 < t_ <= times[k0] and t_ % hyd_ != 0 for t_ in changes):
                kind = 'engines_differ_pattern_change_inside_hydraulic_step'
        if any(valve_forced_open(spec, rw, re_, v, k) and side_without_source(topo, links, rw, v, k) for v in spec['valves'] for k in range(k0 + 1)):
            kind = 'engines_differ_valve_forced_open_without_source'
        c.violate(kind, 'link %s: WNTR and EPANET report different open/closed states at report steps %s (t = %s s): WNTR %s, EPANET %s' % (
            ln, r_[:6], [times[k] for k in r_[:6]], [int(rw.link['status'][ln].values[k]) for k in r_[:6]],
            [int(re_.link['status'][ln].values[k]) for k in r_[:6]]), **wit)
        return
    # WNTR places tank-level events on whole seconds, EPANET exactly: levels (and every head they feed) may differ by 2 s of tank flow
    tank_slack = 0.0
    for tk in spec['tanks']:
        area = math.pi * tk['diameter'] ** 2 / 4.0
        if tk['vol_curve']:
            pts = spec['curves'][tk['vol_curve']]['points']
            area = min((v1 - v0) / (l1 - l0) for (l0, v0), (l1, v1) in zip(pts, pts[1:]))
        qt = float(rw.node['demand'][tk['name']].abs().max())
        tank_slack = max(tank_slack, 2.0 * qt / area)
        # after a control or tank event inside a hydraulic step the two engines restart their explicit tank integration from
        # slightly different instants and hold different flows for the remainder of the step: with events present the levels
        # may differ by a fraction of the level change per step (observed up to 0.1 of it on the unchanged tree)
        if spec['controls'] or len(spec['tanks']) > 1 or any(p_['cv'] for p_ in spec['pipes']) or spec['pumps'] or spec['valves']:
            tank_slack = max(tank_slack, 0.15 * qt * o['hydraulic_timestep'] / area)
    # a head error e at a tank changes the flows of its links by about e / (dh/dq); bounded here by 3 % of the largest flow per 0.1 m
    flow_slack = min(0.05, 0.3 * tank_slack) * qmax
    pipe_law = {p_['name']: (ref.hw_k(p_['roughness'], p_['diameter'], p_['length']), ref.minor_k(p_['minor_loss'], p_['diameter']), p_)
                for p_ in spec['pipes']}
    open_valve_loss = {v_['name']: (ref.minor_k(v_['minor_loss'], v_['diameter']), v_) for v_ in spec['valves']}
    end_nodes = {l_['name']: (l_['start'], l_['end']) for l_ in spec['pipes'] + spec['pumps'] + spec['valves']}
    skip_steps = set(k for idx in mismatch.values() for k in idx)
    # EPANET also evaluates rules at the end of every hydraulic step, WNTR only on the rule grid: when the rule step does not divide
    # the hydraulic step a rule's setting action can take effect one report step apart in the two engines.  A valve setting that
    # differs at ONE report step (equal before and after) is such a near tie; a longer difference is left to the value comparison.
    for v_ in spec['valves']:
        sw_, se_ = rw.link['setting'][v_['name']].values, re_.link['setting'][v_['name']].values
        act_ = [float(se_[k]) != 0.0 and float(sw_[k]) != 0.0 for k in range(len(times))]      # EPANET reports 0 for a valve at a fixed status
        dif_ = [act_[k] and abs(float(sw_[k]) - float(se_[k])) > 1e-4 * max(abs(float(sw_[k])), abs(float(se_[k])), 1e-9) for k in range(len(times))]
        for k in range(len(times)):
            if dif_[k] and not (k > 0 and dif_[k - 1]) and not (k + 1 < len(times) and dif_[k + 1]):
                skip_steps.add(k)
                c.count('setting_near_tie_steps')
    if bistable:
        skip_steps.add(min(bistable))
    # after a near tie the tank levels of the two engines differ by the step's worth: compare only up to the first one
    first_tie = min(skip_steps) if skip_steps else None
    if limit_step is not None and (first_tie is None or limit_step < first_tie):
        first_tie = limit_step
    # a power pump's head gain is P/(rho g q): WNTR uses rho g = 9810 N/m3, EPANET 62.4 lb/ft3 = 9802 N/m3 (7.7e-4 apart)
    rel_h = 1e-3 if any(p['type'] == 'POWER' for p in spec['pumps']) else 3e-4
    hv_ = re_.node['head'].values
    hv_ = hv_[hv_ > -1e4]
    hspread = float(hv_.max() - hv_.min()) if hv_.size else 0.0
    worst = None
    for i, t in enumerate(times):
        if first_tie is not None and i >= first_tie:
            break
        c.count('engine_steps_compared')
        closed_w = set(ln for ln in links if link_closed(rw, ln, i))
        conn = topo.connected_nodes(closed_w)
        for key, tol_abs, tol_rel in (('head', 0.01, rel_h), ('pressure', 0.01, rel_h)):
            for n in nodes:
                if n in junc_names and n not in conn:
                    continue      # cut off from every source: WNTR zeroes such junctions, EPANET extrapolates a head (not a common feature)
                if n in junc_names and all(abs(float(rw.link['flowrate'][ln_].values[i])) <= 1e-6 and abs(float(re_.link['flowrate'][ln_].values[i])) <= 1e-6
                                           for ln_ in incident[n]):
                    continue      # no flow in any link of the junction in either engine: its head floats (between a closed valve and a closed check valve, say)
                if key == 'pressure' and n in res_names:
                    continue      # a reservoir has no pressure (EPANET reports head - base head, WNTR 0)
                a, b = float(rw.node[key][n].values[i]), float(re_.node[key][n].values[i])
                c.count('engine_values_compared')
                d = abs(a - b)
                # relative to the larger of the head itself and the spread of heads in the network (the head losses the value is the
                # result of): a node 95 m of head loss below its source at head -5 m is known to 3e-4 x 95 m, not x 5 m
                lim = tol_abs + tol_rel * max(abs(float(re_.node['head'][n].values[i])), hspread) + tank_slack
                if d > lim and (worst is None or d / lim > worst[0]):
                    worst = (d / lim, key, n, t, a, b)
        def flat_allow(ln_):
            # flow of a hydraulically flat link is only as well determined as the heads at its ends (see the link comparison below)
            qa_, qb_ = float(rw.link['flowrate'][ln_].values[i]), float(re_.link['flowrate'][ln_].values[i])
            if ln_ in pipe_law:
                k_, mk_, l_ = pipe_law[ln_]
                slope_ = 1.852 * k_ * min(abs(qa_), abs(qb_)) ** 0.852 + 2 * mk_ * min(abs(qa_), abs(qb_)) + 1e-5 * math.sqrt(k_)
            elif ln_ in open_valve_loss and int(rw.link['status'][ln_].values[i]) == 1 and int(re_.link['status'][ln_].values[i]) == 1:
                mk_, l_ = open_valve_loss[ln_]
                slope_ = 2 * mk_ * min(abs(qa_), abs(qb_)) + 1e-9
            else:
                return 0.0
            dH_ = abs(float(rw.node['head'][l_['start']].values[i]) - float(re_.node['head'][l_['start']].values[i])) + \
                abs(float(rw.node['head'][l_['end']].values[i]) - float(re_.node['head'][l_['end']].values[i])) + 2e-6
            return dH_ / slope_
        for n in nodes:
            a, b = float(rw.node['demand'][n].values[i]), float(re_.node['demand'][n].values[i])
            c.count('engine_values_compared')
            d = abs(a - b)
            lim_d = 1e-5 + 1e-3 * qmax + flow_slack
            if d > lim_d and n not in junc_names:
                # the demand of a tank or reservoir is the sum of its link flows: it inherits their indeterminacy
                lim_d += sum(flat_allow(l2) for l2 in links if n in end_nodes[l2])
            if d > lim_d and (worst is None or d / lim_d > worst[0]):
                worst = (d / lim_d, 'demand', n, t, a, b)
        for ln in links:
            a, b = float(rw.link['flowrate'][ln].values[i]), float(re_.link['flowrate'][ln].values[i])
            if end_nodes[ln][0] not in conn and end_nodes[ln][1] not in conn:
                c.count('links_in_cut_off_zone_skipped')      # a link inside a zone without any source: WNTR zeroes it (C09), EPANET lets it float
                continue
            c.count('engine_values_compared')
            d = abs(a - b)
            lim = 1e-5 + 1e-3 * qmax + flow_slack
            if max(abs(a), abs(b)) < 4e-4:
                lim = max(lim, 2e-4)      # inside WNTR's documented low-flow smoothing range of the Hazen-Williams law (|q| < 4e-4 m3/s)
            if d > lim and ln in pipe_law:
                # a hydraulically flat pipe (short, wide, little flow): its flow is only as well determined as the heads at its
                # ends - the two engines' heads differ by dH there, which moves the flow by dH / (d headloss / dq)
                k_, mk_, l_ = pipe_law[ln]
                dH = abs(float(rw.node['head'][l_['start']].values[i]) - float(re_.node['head'][l_['start']].values[i])) + \
                    abs(float(rw.node['head'][l_['end']].values[i]) - float(re_.node['head'][l_['end']].values[i])) + 2e-6
                qm = min(abs(a), abs(b))
                lim = lim + dH / (1.852 * k_ * qm ** 0.852 + 2 * mk_ * qm + 1e-5 * math.sqrt(k_))
                c.count('flat_pipe_flow_comparisons')
            if d > lim and ln in open_valve_loss and int(rw.link['status'][ln].values[i]) == 1 and int(re_.link['status'][ln].values[i]) == 1:
                # a fully open valve is a link with (almost) no head loss: in a loop its flow is whatever the neighbouring heads
                # leave over, i.e. as (in)determinate as those heads
                mk_, l_ = open_valve_loss[ln]
                dH = abs(float(rw.node['head'][l_['start']].values[i]) - float(re_.node['head'][l_['start']].values[i])) + \
                    abs(float(rw.node['head'][l_['end']].values[i]) - float(re_.node['head'][l_['end']].values[i])) + 2e-6
                lim = lim + dH / (2 * mk_ * min(abs(a), abs(b)) + 1e-9)
                c.count('open_valve_flow_comparisons')
            if d > lim and (worst is None or d / lim > worst[0]):
                worst = (d / lim, 'flowrate', ln, t, a, b)
    if worst is not None:
        kind = 'engines_differ'
        for tk in spec['tanks']:
            if tk['vol_curve']:
                ends = (spec['curves'][tk['vol_curve']]['points'][0][0], spec['curves'][tk['vol_curve']]['points'][-1][0])
                lv = rw.node['pressure'][tk['name']].values
                if any(abs(float(x) - e_) <= 1e-9 for x in lv for e_ in ends if not (tk['min_level'] - 1e-9 <= e_ <= tk['max_level'] + 1e-9)):
                    kind = 'engines_differ_tank_level_clamped_at_volume_curve_end'      # mechanism recorded under C05
        # mechanism test: EPANET also solves at every pattern change; WNTR only on the hydraulic grid. When a pattern change falls
        # strictly inside a hydraulic step the demands (and tank flows) of the two engines differ for the rest of that step
        if o['pattern_timestep'] % o['hydraulic_timestep'] != 0 or o['pattern_start'] % o['hydraulic_timestep'] != 0:
            if not (worst[3] == 0):
                kind = 'engines_differ_pattern_change_inside_hydraulic_step'
        # mechanism test: WNTR forces a control valve open when one side of it has no source (_ValveSourceChecker) - harmless in
        # demand-driven mode, but under PDD EPANET keeps the valve active and limits the flow / pressure
        iw = times.index(worst[3])
        for v in spec['valves']:
            for k in range(iw + 1):
                if valve_forced_open(spec, rw, re_, v, k) and side_without_source(topo, links, rw, v, k):
                    kind = 'engines_differ_valve_forced_open_without_source'
        c.violate(kind, '%s of %s at t = %s s: WNTR %.6g, EPANET %.6g (%.1f x the tolerance)' % (worst[1], worst[2], worst[3], worst[4], worst[5], worst[0]),
                  quantity=worst[1], element=worst[2], **wit)
    # Beyond the first contact with a level limit the engines are not compared value by value (limit cycles), but a tank is still
    # the same tank: (a) a level limit that EPANET respects is respected by WNTR up to the event tolerance (2 s of tank flow),
    # (b) the two levels stay within three hydraulic steps' worth of tank flow of each other.
    if limit_step is not None and not c.violations:
        hyd = o['hydraulic_timestep']
        for tk in spec['tanks']:
            area = math.pi * tk['diameter'] ** 2 / 4.0
            if tk['vol_curve']:
                pts = spec['curves'][tk['vol_curve']]['points']
                area = min((v1 - v0) / (l1 - l0) for (l0, v0), (l1, v1) in zip(pts, pts[1:]))
            Lw, Le = rw.node['pressure'][tk['name']].values, re_.node['pressure'][tk['name']].values
            Dw, De = rw.node['demand'][tk['name']].values, re_.node['demand'][tk['name']].values
            qrun = max(float(abs(Dw).max()), float(abs(De).max()))
            for i in range(limit_step, len(times)):
                c.count('tank_levels_compared_after_limit')
                lw, le = float(Lw[i]), float(Le[i])
                slack = 0.02 + 2.0 * qrun / area
                if (lw > tk['max_level'] + slack and le <= tk['max_level'] + 1e-3) or (lw < tk['min_level'] - slack and le >= tk['min_level'] - 1e-3):
                    c.violate('engines_differ_tank_beyond_limit',
                              'tank %s at t = %s s: WNTR level %.4f is outside [%.4g, %.4g] by more than the event tolerance %.3g m, EPANET level %.4f is inside' % (
                                  tk['name'], times[i], lw, tk['min_level'], tk['max_level'], slack, le), element=tk['name'], **wit)
                    break
                coarse = 0.1 + 3.0 * qrun * hyd / area
                if abs(lw - le) > coarse:
                    c.violate('engines_differ_tank_level_after_limit',
                              'tank %s at t = %s s: levels WNTR %.4f, EPANET %.4f differ by more than three hydraulic steps of tank flow (%.3g m) after a level limit was reached' % (
                                  tk['name'], times[i], lw, le, coarse), element=tk['name'], **wit)
                    break
    c.nontrivial = bool(spec['tanks'] or spec['pumps'] or spec['valves']) and len(times) >= 4


# ------------------------------------------------------------------------------------------------
def incidence(spec):
    inc = {}
    for l_ in spec['pipes'] + spec['pumps'] + spec['valves']:
        inc.setdefault(l_['start'], []).append(l_['name'])
        inc.setdefault(l_['end'], []).append(l_['name'])
    return inc


def compare_results(c, label, ra, rb, counter, wit, rel=3e-4, ab=1e-6, starved=None, tanks=None, incident=None):
    """EPANET vs EPANET: tight."""
    ta, tb = [int(t) for t in ra.node['head'].index], [int(t) for t in rb.node['head'].index]
    if ta != tb:
        if ta == tb[:len(ta)] or tb == ta[:len(tb)]:
            # EPANET halted one of the runs (UNBALANCED STOP): a convergence failure of the trusted engine, not a verdict
            c.inconclusive('epanet_halted_unbalanced')
            return False
        c.violate('report_times_differ', '%s: report times %s vs %s' % (label, ta[:10], tb[:10]), **wit)
        return False
    worst = None
    # a discrete event (tank full, level control, check valve) that falls next to a report instant can land on either side of it
    # when the two runs differ in the 5th digit: values are compared up to the first report step at which the open/closed states of
    # the two runs differ; a difference of states that persists from there to the end of a run of >= 3 more steps is reported
    Sa, Sb = ra.link['status'], rb.link['status']
    n_steps = len(ta)
    stop = n_steps
    for i in range(n_steps):
        if any((int(Sa[col].values[i]) == 0) != (int(Sb[col].values[i]) == 0) for col in Sa.columns):
            stop = i
            c.count('event_near_tie_between_runs')
            break
    # The same engine on (what should be) the same model: an event can land on either side of ONE report instant, no more.  A link
    # whose open/closed state differs at two or more consecutive report steps while it carries flow in one of the runs - and that
    # is not attached to a tank hovering at a level limit - means the event itself sits at a different time in the two runs.
    if stop < n_steps:
        near_limit = set()
        for tk in (tanks or []):
            margin = max(0.02, 0.05 * (tk['max_level'] - tk['min_level']))
            if any(float(r_.node['pressure'][tk['name']].values[i]) <= tk['min_level'] + margin or
                   float(r_.node['pressure'][tk['name']].values[i]) >= tk['max_level'] - margin
                   for r_ in (ra, rb) for i in range(n_steps)):
                near_limit.add(tk['name'])
        limit_links = set(l2 for tn in near_limit for l2 in (incident or {}).get(tn, []))
        if incident is not None and not near_limit:
            for col in Sa.columns:
                run = 0
                for i in range(stop, n_steps):
                    differs = (int(Sa[col].values[i]) == 0) != (int(Sb[col].values[i]) == 0)
                    material = max(abs(float(ra.link['flowrate'][col].values[i])), abs(float(rb.link['flowrate'][col].values[i]))) > 1e-5
                    run = run + 1 if (differs and material) else 0
                    if run >= 2 and col not in limit_links:
                        c.violate('status_timelines_differ_between_runs', '%s: link %s is %s in one run and %s in the other at %d consecutive report steps from t = %s s' % (
                            label, col, 'closed' if int(Sa[col].values[i]) == 0 else 'open', 'closed' if int(Sb[col].values[i]) == 0 else 'open', run, ta[i - run + 1]), **wit)
                        return False
    # ... and a tank hovering at a level limit opens and closes its links between report steps (see the engines monitor)
    for tk in (tanks or []):
        margin = max(0.02, 0.05 * (tk['max_level'] - tk['min_level']))
        for i in range(min(stop, n_steps)):
            if any(float(r_.node['pressure'][tk['name']].values[i]) <= tk['min_level'] + margin or
                   float(r_.node['pressure'][tk['name']].values[i]) >= tk['max_level'] - margin for r_ in (ra, rb)):
                stop = i
                c.count('stopped_at_tank_limit')
                break
    hv_ = rb.node['head'].values
    hv_ = hv_[hv_ > -1e4]
    hrange = float(hv_.max() - hv_.min()) if hv_.size else 0.0
    fixed_ = set(t_['name'] for t_ in (tanks or []))
    junc_like = set(n_ for n_ in ra.node['head'].columns if n_ not in fixed_ and not str(n_).startswith('R'))      # a flow-unit constant off by 1e-4 moves heads by ~2e-4 of the head losses
    for grp, keys in (('node', ('head', 'pressure', 'demand')), ('link', ('flowrate', 'status'))):
        for key in keys:
            A, B = getattr(ra, grp)[key], getattr(rb, grp)[key]
            if sorted(A.columns) != sorted(B.columns):
                c.violate('result_columns_differ', '%s: %s/%s columns differ' % (label, grp, key), **wit)
                return False
            scale = max(float(B.abs().max().max()), 1e-9)
            for col in A.columns:
                a, b = A[col].values, B[col].values
                for i in range(min(len(a), stop)):
                    if starved is not None and grp == 'node' and key in ('head', 'pressure') and (col, i) in starved:
                        continue
                    if grp == 'node' and key in ('head', 'pressure') and incident is not None and col in junc_like and all(
                            abs(float(ra.link['flowrate'][l2].values[i])) <= 1e-6 and abs(float(rb.link['flowrate'][l2].values[i])) <= 1e-6
                            for l2 in incident.get(col, [])):
                        c.count('floating_node_values_skipped')      # no flow on any of its links: EPANET leaves such a head where the iteration left it
                        continue
                    if grp == 'node' and key in ('head', 'pressure') and min(float(a[i]), float(b[i])) < -1e4:
                        c.count('disconnected_node_values_skipped')     # EPANET's marker for a node cut off from every source (about -1e6)
                        continue
                    c.count(counter)
                    d = abs(float(a[i]) - float(b[i]))
                    lim = ab + rel * abs(float(b[i])) + (3e-3 * scale if key in ('flowrate', 'demand') else 0.0)
                    if key in ('head', 'pressure'):
                        lim = 5e-3 + rel * max(abs(float(B[col].values[i]) if key == 'head' else float(rb.node['head'][col].values[i])), hrange)
                    if key == 'status':
                        lim = 0.5
                    if d > lim and (worst is None or d / lim > worst[0]):
                        worst = (d / lim, key, col, ta[i], float(a[i]), float(b[i]))
    if worst is not None:
        return worst
    return True


def rig_spec(rng):
    """A valve rig (reservoir - pipe - VALVE - pipe - tank | reservoir | dead end) in which the valve is steered into a chosen
    status, with controls and rules (THEN and ELSE) that change its setting: every clause goes through its own unit conversion in
    the INP writer and its own hidden 'activate the valve' companion in the simulator."""
    from vlib.props import c02
    spec = c02.valve_rig(rng)
    o = spec['options']
    o['extra_hydraulic'] = {'accuracy': 1e-06, 'trials': 200}
    if isinstance(o['report_timestep'], int) and o['report_timestep'] < o['hydraulic_timestep']:
        o['rule_timestep'] = min(o['rule_timestep'], o['report_timestep'])      # see common_spec
    for t in spec['tanks']:
        t['diameter'] = 30.0
    o['pattern_interpolation'] = False      # a WNTRSimulator-only option, not a common feature (see common_spec)
    for t_ in spec['tanks']:
        t_['overflow'] = False
    ctrlgen.add_random_controls(spec, rng, n=(1, 1), kinds=('rule_setting', 'rule_setting', 'setting'), offgrid=0.3)     # one source of setting changes per valve: equal-priority conflicts are undefined
    return spec


def run_units(c, rng):
    if c.index % 8 == 5:
        spec = rig_spec(rng)
        c.count('valve_rig_cases')
    else:
        spec = common_spec(rng, c.tier)
    wn = gnet.build(spec)
    c.count('units_cases')
    c.set_sig('units', gnet.signature(spec), spec['options']['demand_model'], len(spec['controls']))
    c.sample = {'monitor': 'units', 'network': gnet.signature(spec)}
    wit = {'spec': spec}
    results = {}
    for u in UNITS:
        w = copy.deepcopy(wn)
        w.options.hydraulic.inpfile_units = u
        tr = simobs.run_epanet(w)
        c.count('unit_runs')
        if tr.exception is not None:
            c.violate('epanet_run_failed_for_units', 'EpanetSimulator with inpfile_units=%s raised %s: %s' % (u, type(tr.exception).__name__, str(tr.exception)[:200]),
                      traceback=getattr(tr, 'traceback', ''), **wit) if u != UNITS[0] and results else c.inconclusive('epanet_failed')
            if not results:
                return
            continue
        if not epanet_clean(tr):
            c.inconclusive('epanet_warnings')
            return
        if not epanet_balanced(spec, tr.results):
            c.inconclusive('epanet_solution_does_not_balance')
            return
        results[u] = tr.results
    base = 'LPS' if 'LPS' in results else sorted(results)[0]
    # under PDD a zone that is cut off from every source is not an error for EPANET: its junctions deliver nothing and their
    # heads are arbitrary (they depend on the iteration path).  Such junction-steps are not compared.
    starved = set()
    if spec['options']['demand_model'] == 'PDD':
        want = {j['name']: sum(d['base'] for d in j['demands']) for j in spec['junctions']}
        for r in results.values():
            D_ = r.node['demand']
            for n, w_ in want.items():
                if w_ > 0:
                    for i, v in enumerate(D_[n].values):
                        if abs(float(v)) < 1e-6:
                            starved.add((n, i))
        zero = [n for n, w_ in want.items() if w_ == 0]
        if starved:
            for n in zero:
                for i in range(len(results[base].node['demand'].index)):
                    starved.add((n, i))
    for u, r in results.items():
        if u == base:
            continue
        out = compare_results(c, 'inpfile_units %s vs %s' % (u, base), r, results[base], 'unit_values_compared', wit, starved=starved, tanks=spec['tanks'], incident=incidence(spec))
        if out is False:
            return
        if out is not True:
            c.violate('results_depend_on_inp_units', 'written in %s the model gives %s of %s at t = %s s = %.7g, written in %s it gives %.7g (%.0f x the tolerance)' % (
                u, out[1], out[2], out[3], out[4], base, out[5], out[0]), units=u, quantity=out[1], element=out[2], **wit)
            if len(c.violations) >= 3:
                return
    c.nontrivial = bool(spec['tanks'] or spec['pumps'] or spec['valves'])


# ------------------------------------------------------------------------------------------------
# INP emitter with the reference unit table (independent of wntr.epanet.io's writer)
# ------------------------------------------------------------------------------------------------
FLOW = {'CFS': 0.3048 ** 3, 'GPM': 3.785411784e-3 / 60, 'MGD': 3.785411784e3 / 86400, 'IMGD': 4.54609e3 / 86400, 'AFD': 43560 * 0.3048 ** 3 / 86400,
        'LPS': 1e-3, 'LPM': 1e-3 / 60, 'MLD': 1e3 / 86400, 'CMH': 1.0 / 3600, 'CMD': 1.0 / 86400}
US = ('CFS', 'GPM', 'MGD', 'IMGD', 'AFD')


def emit_inp(spec, units):
    us = units in US
    L = 0.3048 if us else 1.0                 # length, head, elevation, tank diameter
    D = 0.0254 if us else 0.001               # pipe/valve diameter (in | mm)
    Pp = 0.3048 / 0.4333 if us else 1.0        # pressure: psi | m  (EPANET: psi = 0.4333 x head in ft)
    Pw = 745.699872 if us else 1000.0         # power: hp | kW
    V = 0.3048 ** 3 if us else 1.0
    Q = FLOW[units]
    o = spec['options']
    out = ['[TITLE]', 'emitted by the verification harness', '']
    out += ['[JUNCTIONS]']
    for j in spec['junctions']:
        d0 = j['demands'][0] if j['demands'] else {'base': 0.0, 'pattern': None}
        out.append(' %s %.10g %.10g %s ;' % (j['name'], j['elevation'] / L, d0['base'] / Q, d0['pattern'] or ''))
    out += ['', '[RESERVOIRS]']
    for r in spec['reservoirs']:
        out.append(' %s %.10g %s ;' % (r['name'], r['head'] / L, r['pattern'] or ''))
    out += ['', '[TANKS]']
    for t in spec['tanks']:
        out.append(' %s %.10g %.10g %.10g %.10g %.10g %.10g %s ;' % (t['name'], t['elevation'] / L, t['init_level'] / L, t['min_level'] / L, t['max_level'] / L,
                                                                    t['diameter'] / L, t['min_vol'] / V, t['vol_curve'] or ''))
    out += ['', '[PIPES]']
    for p in spec['pipes']:
        out.append(' %s %s %s %.10g %.10g %.10g %.10g %s ;' % (p['name'], p['start'], p['end'], p['length'] / L, p['diameter'] / D, p['roughness'],
                                                             p['minor_loss'], 'CV' if p['cv'] else p['status']))
    out += ['', '[PUMPS]']
    for p in spec['pumps']:
        if p['type'] == 'POWER':
            out.append(' %s %s %s POWER %.10g ;' % (p['name'], p['start'], p['end'], p['power'] / Pw))
        else:
            out.append(' %s %s %s HEAD %s ;' % (p['name'], p['start'], p['end'], p['curve']))
    out += ['', '[VALVES]']
    for v in spec['valves']:
        s = v['setting']
        if v['type'] in ('PRV', 'PSV', 'PBV'):
            s = s / Pp
        elif v['type'] == 'FCV':
            s = s / Q
        out.append(' %s %s %s %.10g %s %.10g %.10g ;' % (v['name'], v['start'], v['end'], v['diameter'] / D, v['type'], s, v['minor_loss']))
    out += ['', '[DEMANDS]']
    for j in spec['junctions']:
        if len(j['demands']) > 1:
            for d in j['demands']:
                out.append(' %s %.10g %s %s' % (j['name'], d['base'] / Q, d['pattern'] or '', (';' + d['category']) if d['category'] else ''))
    out += ['', '[STATUS]']
    for p in spec['pumps']:
        if p['status'] == 'CLOSED':
            out.append(' %s CLOSED' % p['name'])
    for v in spec['valves']:
        if v['status'] in ('OPEN', 'CLOSED'):
            out.append(' %s %s' % (v['name'], v['status']))
    out += ['', '[PATTERNS]']
    for name, mult in spec['patterns'].items():
        for k in range(0, len(mult), 6):
            out.append(' %s %s' % (name, ' '.join('%.10g' % m for m in mult[k:k + 6])))
    out += ['', '[CURVES]']
    for name, cv in spec['curves'].items():
        for x, y in cv['points']:
            if cv['type'] == 'HEAD':
                out.append(' %s %.10g %.10g' % (name, x / Q, y / L))
            elif cv['type'] == 'VOLUME':
                out.append(' %s %.10g %.10g' % (name, x / L, y / V))
    out += ['', '[CONTROLS]']
    for cs in spec['controls']:
        if cs['kind'] == 'time':
            val = cs['value'] if cs['attr'] == 'status' else '%.10g' % cs['value']
            out.append(' LINK %s %s AT %s %.10g' % (cs['target'], val, 'CLOCKTIME' if cs.get('clock') else 'TIME', cs['time'] / 3600.0))
        elif cs['kind'] == 'cond':
            th = cs['threshold'] / (L if cs['source'].startswith('T') else Pp)
            out.append(' LINK %s %s IF NODE %s %s %.10g' % (cs['target'], cs['value'], cs['source'], 'BELOW' if cs['op'] in ('<', '<=') else 'ABOVE', th))
    out += ['', '[TIMES]']

    def hms(s):
        return '%d:%02d:%02d' % (s // 3600, s % 3600 // 60, s % 60)
    out += [' DURATION %s' % hms(o['duration']), ' HYDRAULIC TIMESTEP %s' % hms(o['hydraulic_timestep']), ' QUALITY TIMESTEP 0:05:00',
            ' RULE TIMESTEP %s' % hms(o['rule_timestep']), ' PATTERN TIMESTEP %s' % hms(o['pattern_timestep']), ' PATTERN START %s' % hms(o['pattern_start']),
            ' REPORT TIMESTEP %s' % hms(o['report_timestep']), ' REPORT START 0:00:00', ' START CLOCKTIME %s' % hms(o['start_clocktime']), ' STATISTIC NONE']
    dflt = [' PATTERN %s' % o['extra_hydraulic']['pattern']] if o.get('extra_hydraulic', {}).get('pattern') else []
    out += ['', '[OPTIONS]'] + dflt + [' UNITS %s' % units, ' HEADLOSS H-W', ' SPECIFIC GRAVITY 1', ' VISCOSITY 1', ' TRIALS 200', ' ACCURACY 0.000001', ' UNBALANCED STOP',
            ' DEMAND MULTIPLIER %.10g' % o['demand_multiplier'], ' EMITTER EXPONENT 0.5', ' QUALITY NONE', ' DIFFUSIVITY 1', ' TOLERANCE 0.01']
    if o['demand_model'] == 'PDD':
        out += [' DEMAND MODEL PDA', ' MINIMUM PRESSURE %.10g' % (o['minimum_pressure'] / Pp), ' REQUIRED PRESSURE %.10g' % (o['required_pressure'] / Pp),
                ' PRESSURE EXPONENT %.10g' % o['pressure_exponent']]
    out += ['', '[COORDINATES]']
    for grp in ('junctions', 'reservoirs', 'tanks'):
        for n in spec[grp]:
            out.append(' %s %.10g %.10g' % (n['name'], n['coordinates'][0], n['coordinates'][1]))
    out += ['', '[END]', '']
    return '\n'.join(out)


def run_toolkit(inp_path, tmp):
    """EPANET toolkit directly on the INP text; results read with BinFile."""
    import wntr
    from wntr.epanet import toolkit
    from wntr.epanet.io import BinFile
    rpt, bin_ = os.path.join(tmp, 'direct.rpt'), os.path.join(tmp, 'direct.bin')
    en = toolkit.ENepanet(version=2.2)
    en.ENopen(inp_path, rpt, bin_)
    en.ENsolveH()
    en.ENsaveH()
    en.ENreport()
    en.ENclose()
    return BinFile().read(bin_)


def run_reader(c, rng):
    import wntr
    import warnings
    c.count('reader_cases')
    tmp = tempfile.mkdtemp(prefix='verif_c03_')
    try:
        if c.index % 16 == 3:
            from vlib.props import common
            fname = EXAMPLES[(c.index // 16) % len(EXAMPLES)]
            src = os.path.join(common.EXAMPLES, fname)
            text = open(src, errors='replace').read()
            units, spec = 'file', None
            c.set_sig('reader', fname)
            c.sample = {'monitor': 'reader', 'file': fname}
        else:
            spec = common_spec(rng, c.tier)
            spec['controls'] = [cs for cs in spec['controls'] if cs['kind'] in ('time', 'cond')]     # the emitter writes simple controls only
            units = rng.choice(UNITS)
            if any(cs['kind'] == 'time' for cs in spec['controls']) and rng.random() < 0.6:
                # a fine report grid: an event that the reader moves by minutes then differs at several consecutive report steps
                # (an event may land on either side of ONE report instant between two runs of the same engine)
                spec['options']['report_timestep'] = 300
                c.count('reader_fine_report_grid_cases')
            text = emit_inp(spec, units)
            c.set_sig('reader', gnet.signature(spec), units, spec['options']['demand_model'])
            c.sample = {'monitor': 'reader', 'units': units, 'network': gnet.signature(spec)}
        wit = {'units': units, 'spec': spec, 'inp_text': text[-2500:] if spec else None}
        path = os.path.join(tmp, 'model.inp')
        with open(path, 'w') as f:
            f.write(text)
        with warnings.catch_warnings(record=True) as wl:
            warnings.simplefilter('always')
            try:
                direct = run_toolkit(path, tmp)
            except Exception as e:
                c.inconclusive('epanet_rejects_text: %s' % str(e)[:100])
                return
        if any(k in ' '.join(str(w_.message) for w_ in wl).lower() for k in ('unbalanced', 'negative', 'disconnected')):
            c.inconclusive('epanet_warnings')
            return
        try:
            wn = wntr.network.WaterNetworkModel(path)
        except Exception as e:
            c.violate('reader_raised', 'WaterNetworkModel(inp) raised %s: %s on a file EPANET runs' % (type(e).__name__, str(e)[:200]),
                      traceback=traceback.format_exc()[-1500:], **wit)
            return
        tr = simobs.run_epanet(wn)
        if tr.exception is not None:
            c.violate('read_model_does_not_run', 'the model read from the file does not run in EPANET: %s' % str(tr.exception)[:200], **wit)
            return
        if spec is not None and not (epanet_balanced(spec, direct) and epanet_balanced(spec, tr.results)):
            c.inconclusive('epanet_solution_does_not_balance')
            return
        out = compare_results(c, 'read-and-rewritten vs original text', tr.results, direct, 'reader_values_compared', wit, tanks=(spec['tanks'] if spec else None), incident=(incidence(spec) if spec else None))
        if out is False:
            return
        if out is not True:
            c.violate('reader_changes_results', 'EPANET on the original text (units %s) gives %s of %s at t = %s s = %.7g; after WaterNetworkModel(inp) + EpanetSimulator it is %.7g (%.0f x the tolerance)' % (
                units, out[1], out[2], out[3], out[5], out[4], out[0]), quantity=out[1], element=out[2], **wit)
        c.nontrivial = spec is None or bool(spec['tanks'] or spec['pumps'] or spec['valves'])
    finally:
        shutil.rmtree(tmp, ignore_errors=True)
