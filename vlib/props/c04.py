"""C04 - time-based controls and rules act exactly at their configured instants.

Events: with report_timestep='ALL' the result index IS the list of solved instants and
results.link['status'|'setting'] the value of every target at each of them.
Oracle: a ~100-line control-timeline model (simple AT TIME / AT CLOCKTIME controls, rules with
sim-time / clock-time conditions incl. AND/OR ranges, ELSE, priorities) gives, for every target and
instant, the value of the last event at or before it, and the list of instants at which something
changes.  EPANET 2.2 running the same model is a second reference on the report grid: a point where
the timeline model and EPANET disagree is never held against WNTR (counted as oracle_disagreement).
"""
import copy
import traceback

from vlib import simobs

ID = 'C04'
LEVEL = 'exploration'
RULE = ('3 host networks (parallel pipes, a pump from a second source, a TCV, optionally a tank) x schedules of 1-7 simple controls and rules: '
        'AT TIME t and AT CLOCKTIME c controls on status / valve setting / pump speed, rules IF SYSTEM TIME|CLOCKTIME rel x [AND|OR ...] THEN .. '
        '[ELSE ..] PRIORITY p; thresholds on and off the hydraulic and rule grids, same-instant conflicts with different priorities, '
        'start_clocktime in {0, 1 h .. 23 h}, hydraulic step 600-3600 s, rule step dividing or not dividing it, durations up to 3 days; every '
        "solved instant of a report_timestep='ALL' run x every target is judged; signature = multiset of control kinds + time options; "
        'non-trivial = at least one event strictly inside (0, duration) changes a value')
ASSUMPTIONS = ['EPANET conventions: simple controls also act at t = 0; rules are evaluated at the positive multiples of the rule timestep, '
               'never before the first solution; an "=" time condition of a rule holds at the first evaluation at or after the instant',
               'equal-priority assignments of different values to one target at one instant, and a rule and a simple control hitting one '
               'target at one instant, are undefined and not judged',
               'a disagreement between the timeline model and EPANET at a report instant is not held against WNTR (oracle_disagreement)',
               'trusted: libepanet 2.2 as shipped in the repository']
FLOORS = {'quick': {'conclusive': 100, 'distinct_nontrivial': 50,
                    'counters': {'instants_judged': 3000, 'target_instants_judged': 15000, 'expected_change_events': 400,
                                 'offgrid_events_expected': 120, 'clocktime_controls': 60, 'rules': 80, 'rules_with_else': 25,
                                 'priority_conflicts': 10, 'epanet_grid_points_compared': 8000, 'start_clocktime_nonzero': 40}},
          'thorough': {'conclusive': 1500, 'distinct_nontrivial': 700,
                       'counters': {'instants_judged': 50000, 'target_instants_judged': 250000, 'expected_change_events': 6000,
                                    'offgrid_events_expected': 1800, 'clocktime_controls': 900, 'rules': 1200, 'rules_with_else': 350,
                                    'priority_conflicts': 150, 'epanet_grid_points_compared': 120000, 'start_clocktime_nonzero': 600}}}
CASE_TIMEOUT = {'quick': 240, 'thorough': 600}
DAY = 86400


# appended to RULE in the evidence (vlib/runner.py)
RULE_ADDENDUM = 'Added in rounds 4-5: once-only clock-time controls (also exactly on the start clock time), daily sim-time controls, several simple controls on different targets at one off-grid instant (EPANET cross-check skipped for API-only controls). Round 6: 30 % of the schedules are run in two legs (new simulator, no reset) with the pause right before a rule instant.'

def n_cases(tier):
    return 300 if tier == 'quick' else 20000


# ------------------------------------------------------------------------------------------------
# host networks
# ------------------------------------------------------------------------------------------------
def build_host(rng, variant, opts):
    import wntr
    wn = wntr.network.WaterNetworkModel()
    t = wn.options.time
    t.hydraulic_timestep = opts['hyd']
    t.report_timestep = opts['hyd']
    t.pattern_timestep = 3600
    t.rule_timestep = opts['rule']
    t.duration = opts['duration']
    t.start_clocktime = opts['start']
    t.quality_timestep = 60
    wn.options.hydraulic.accuracy = 1e-4
    wn.add_pattern('P1', [1.0, 1.2, 0.8, 1.1])
    wn.add_reservoir('R1', base_head=60.0, coordinates=(0, 0))
    wn.add_reservoir('R2', base_head=5.0, coordinates=(0, 10))
    for i, (el, dem) in enumerate([(10.0, 0.004), (8.0, 0.006), (6.0, 0.0), (5.0, 0.002)]):
        wn.add_junction('J%d' % (i + 1), base_demand=dem, demand_pattern='P1', elevation=el, coordinates=(10 * (i + 1), 0))
    wn.add_pipe('M', 'R1', 'J1', length=100, diameter=0.4, roughness=120)
    for nm in ('A', 'B', 'C'):
        wn.add_pipe(nm, 'J1', 'J2', length=rng.choice([200, 300, 400]), diameter=0.25, roughness=110)
    wn.add_pipe('D', 'J2', 'J3', length=150, diameter=0.2, roughness=110)
    wn.add_curve('HC', 'HEAD', [(0.0, 150.0), (0.02, 120.0), (0.05, 40.0)])
    wn.add_pump('PU', 'R2', 'J1', 'HEAD', 'HC')
    wn.add_valve('V', 'J2', 'J4', diameter=0.2, valve_type='TCV', minor_loss=0.0, initial_setting=5.0)
    status_targets = ['A', 'B', 'C', 'D', 'PU']
    if variant == 2:
        wn.add_tank('T', elevation=40.0, init_level=5.0, min_level=0.0, max_level=30.0, diameter=30.0, coordinates=(20, 10))
        wn.add_pipe('E', 'J2', 'T', length=100, diameter=0.3, roughness=120)
    if variant == 1:
        wn.add_pipe('F', 'J1', 'J3', length=500, diameter=0.15, roughness=100)
        status_targets.append('F')
    wn.reset_initial_values()
    return wn, status_targets


# ------------------------------------------------------------------------------------------------
# schedule generation
# ------------------------------------------------------------------------------------------------
def pick_time(rng, opts, offgrid=0.5):
    hyd, dur = opts['hyd'], opts['duration']
    t = hyd * rng.randint(0, max(1, dur // hyd))
    if rng.random() < offgrid:
        t += rng.choice([1, 60, 90, hyd // 2, hyd - 1, rng.randint(1, hyd - 1)])
    return int(min(t, dur + hyd))


def pick_clock(rng, opts):
    """A time of day: round hours, odd seconds, and instants just before / after midnight (inside the hydraulic step that
    crosses it), on and off the hydraulic grid."""
    hyd = opts['hyd']
    u = rng.random()
    if u < 0.45:
        return rng.choice([0, 3600, 2 * 3600 + 1800, 6 * 3600, 7 * 3600 + 900, 12 * 3600, 18 * 3600 + 60, 23 * 3600])
    if u < 0.6:
        return rng.randint(0, DAY - 1)
    if u < 0.8:
        return DAY - rng.choice([1, 60, 900, hyd // 2, hyd, rng.randint(1, hyd - 1), rng.randint(1, 2 * hyd)])
    if u < 0.9:
        return rng.choice([1, 60, hyd // 2, rng.randint(1, hyd - 1)])
    # relative to the simulation start: an instant of the first day on / off the hydraulic grid
    return (opts['start'] + pick_time(rng, dict(opts, duration=min(opts['duration'], DAY - hyd)))) % DAY


def gen_schedule(rng, opts, status_targets):
    n = rng.randint(1, 7)
    out = []
    for i in range(n):
        kind = rng.choice(['time', 'time', 'clock', 'clock', 'rule_time', 'rule_clock', 'rule_range', 'setting_time'])   # pump speeds != 1 are not supported by the WNTRSimulator
        name = 'c%d' % (i + 1)
        tgt = rng.choice(status_targets)
        val = rng.choice(['OPEN', 'CLOSED'])
        if kind == 'time':
            out.append({'kind': 'time', 'name': name, 'time': pick_time(rng, opts), 'target': tgt, 'attr': 'status', 'value': val})
            if rng.random() < 0.2:
                out[-1]['daily'] = True          # a sim-time control that repeats every 24 hours (API only)
        elif kind == 'clock':
            ct = pick_clock(rng, opts)
            out.append({'kind': 'time', 'name': name, 'time': ct, 'clock': True, 'daily': True, 'target': tgt, 'attr': 'status', 'value': val})
            if rng.random() < 0.3:
                # once only (API only): the first time the clock shows ct, which is t = 0 when ct is the start clock time
                out[-1]['daily'] = False
                if rng.random() < 0.35:
                    out[-1]['time'] = opts['start'] + rng.choice([0, 0, 0, 1, -1, opts['hyd']])
                    out[-1]['time'] %= DAY
        elif kind == 'setting_time':
            out.append({'kind': 'time', 'name': name, 'time': pick_time(rng, opts), 'target': 'V', 'attr': 'setting',
                        'value': rng.choice([0.5, 2.0, 20.0, 150.0])})
        elif kind == 'speed_time':
            out.append({'kind': 'time', 'name': name, 'time': pick_time(rng, opts), 'target': 'PU', 'attr': 'base_speed',
                        'value': rng.choice([0.8, 0.9, 1.1])})
        else:
            if kind == 'rule_time':
                cond = {'kind': 'simtime', 'op': rng.choice(['>=', '>', '<', '<=', '=', '>=']), 'time': pick_time(rng, opts, 0.4)}
            elif kind == 'rule_clock':
                cond = {'kind': 'clock', 'op': rng.choice(['>=', '>', '<', '<=', '=']),
                        'time': rng.choice([3600, 6 * 3600, 9 * 3600 + 1800, 12 * 3600, 20 * 3600]) if rng.random() < 0.6 else pick_clock(rng, opts)}
            else:
                lo = pick_time(rng, opts, 0.3)
                hi = lo + rng.choice([opts['hyd'], 2 * opts['hyd'], 3 * opts['hyd'] + 300, 7200])
                if rng.random() < 0.5:
                    cond = {'kind': 'and', 'a': {'kind': 'simtime', 'op': '>=', 'time': lo}, 'b': {'kind': 'simtime', 'op': rng.choice(['<', '<=']), 'time': hi}}
                else:
                    c1, c2 = sorted(rng.sample([3600, 5 * 3600, 8 * 3600, 13 * 3600, 17 * 3600 + 1800, 22 * 3600], 2))
                    cond = {'kind': rng.choice(['and', 'and', 'or']), 'a': {'kind': 'clock', 'op': '>=', 'time': c1},
                            'b': {'kind': 'clock', 'op': '<', 'time': c2}}
            r = {'kind': 'rule', 'name': name, 'priority': rng.randint(1, 5), 'cond': cond,
                 'then': [{'target': tgt, 'attr': 'status', 'value': val}]}
            if rng.random() < 0.45:
                r['else'] = [{'target': tgt, 'attr': 'status', 'value': 'OPEN' if val == 'CLOSED' else 'CLOSED'}]
            if rng.random() < 0.2:
                r['then'].append({'target': 'V', 'attr': 'setting', 'value': rng.choice([1.0, 30.0])})
            out.append(r)
    # clusters: several simple controls inside one hydraulic step, some of them changing nothing (a link set to the
    # value it already has), at instants on and off the rule grid - the partial-step bookkeeping must survive them
    if rng.random() < 0.4:
        hyd, rs = opts['hyd'], opts['rule']
        base = hyd * rng.randint(0, max(1, opts['duration'] // hyd - 1))
        offs = set()
        for _ in range(rng.randint(2, 4)):
            if rs < hyd and rng.random() < 0.6:
                offs.add(rs * rng.randint(1, max(1, hyd // rs - 1)) if hyd // rs > 1 else rng.randint(1, hyd - 1))
            else:
                offs.add(rng.randint(1, hyd - 1))
        used = set(cs.get('target') for cs in out if cs['kind'] != 'rule') | set(a_['target'] for cs in out if cs['kind'] == 'rule' for a_ in cs['then'] + cs.get('else', []))
        free = [x for x in status_targets if x not in used]
        for k, off in enumerate(sorted(offs)):
            nm = 'k%d' % (k + 1)
            if free and (k == 0 or rng.random() < 0.4):
                out.append({'kind': 'time', 'name': nm, 'time': base + off, 'target': rng.choice(free), 'attr': 'status', 'value': 'OPEN'})   # no change
            else:
                out.append({'kind': 'time', 'name': nm, 'time': base + off, 'target': rng.choice(status_targets), 'attr': 'status',
                            'value': rng.choice(['OPEN', 'CLOSED', 'CLOSED'])})
    # force some same-instant conflicts with different priorities
    rules = [r for r in out if r['kind'] == 'rule']
    if len(rules) >= 2 and rng.random() < 0.5:
        a, b = rules[0], rules[1]
        b['cond'] = copy.deepcopy(a['cond'])
        b['then'] = [{'target': a['then'][0]['target'], 'attr': 'status', 'value': 'OPEN' if a['then'][0]['value'] == 'CLOSED' else 'CLOSED'}]
        b.pop('else', None)
        a.pop('else', None)
        if b['priority'] == a['priority']:
            b['priority'] = a['priority'] % 5 + 1
    # several simple controls on different targets due at exactly the same (mostly off-grid) instant: every one of them acts
    simple = [cs for cs in out if cs['kind'] == 'time' and not cs.get('clock') and cs['attr'] == 'status']
    if simple and rng.random() < 0.35:
        a = rng.choice(simple)
        others = [t_ for t_ in status_targets if t_ != a['target']]
        for k in range(rng.randint(1, 2)):
            if not others:
                break
            tg = others.pop(rng.randrange(len(others)))
            cs = {'kind': 'time', 'name': 's%d' % (k + 1), 'time': a['time'], 'target': tg, 'attr': 'status', 'value': rng.choice(['CLOSED', 'CLOSED', 'OPEN'])}
            if a.get('daily'):
                cs['daily'] = True
            out.append(cs)
    return out


# ------------------------------------------------------------------------------------------------
# the timeline model
# ------------------------------------------------------------------------------------------------
def cond_holds(cond, t, prev_eval, start):
    """Truth of a rule's time condition at evaluation instant t (previous evaluation at prev_eval)."""
    k = cond['kind']
    if k == 'and':
        return cond_holds(cond['a'], t, prev_eval, start) and cond_holds(cond['b'], t, prev_eval, start)
    if k == 'or':
        return cond_holds(cond['a'], t, prev_eval, start) or cond_holds(cond['b'], t, prev_eval, start)
    x = cond['time']
    if k == 'simtime':
        t1, t2 = prev_eval, t
    else:
        t1, t2 = (prev_eval + start) % DAY, (t + start) % DAY
    op = cond['op']
    if op == '>':
        return t2 > x
    if op == '>=':
        return t2 >= x
    if op == '<':
        return t2 < x
    if op == '<=':
        return t2 <= x
    # '=': the instant lies in (previous evaluation, this evaluation]
    if k == 'clock' and t2 < t1:
        return x > t1 or x <= t2
    return t1 < x <= t2


UNDEF = '?'


def timeline(schedule, opts, initial):
    """-> (events {instant: {(target, attr): value}}, final per-instant assignment function)."""
    hyd, rs, dur, start = opts['hyd'], opts['rule'], opts['duration'], opts['start']
    inst = {}          # instant -> list of (phase, priority, order, target, attr, value)

    def add(t, phase, prio, order, a):
        inst.setdefault(t, []).append((phase, prio, order, a['target'], a['attr'], a['value']))
    for order, cs in enumerate(schedule):
        if cs['kind'] == 'time':
            if cs.get('clock'):
                first = (cs['time'] - start) % DAY
                t = first
                while t <= dur:
                    add(t, 1, 3, order, cs)
                    if not cs.get('daily', True):
                        break                   # once: the first time the clock shows the configured time
                    t += DAY
            else:
                t = cs['time']
                while 0 <= t <= dur:
                    add(t, 1, 3, order, cs)
                    if not cs.get('daily', False):
                        break
                    t += DAY
    k = 1
    prev = 0
    while k * rs <= dur:
        t = k * rs
        for order, cs in enumerate(schedule):
            if cs['kind'] != 'rule':
                continue
            acts = cs['then'] if cond_holds(cs['cond'], t, prev, start) else cs.get('else', [])
            for a in acts:
                add(t, 0, cs['priority'], order, a)
        prev = t
        k += 1
    events = {}
    for t in sorted(inst):
        per = {}
        for phase, prio, order, tg, at, val in inst[t]:
            per.setdefault((tg, at), []).append((phase, prio, order, val))
        ev = {}
        for key, lst in per.items():
            phases = set(p for p, _, _, _ in lst)
            vals = set(v for _, _, _, v in lst)
            if len(vals) == 1:
                ev[key] = lst[0][3]
            elif len(phases) > 1:
                ev[key] = UNDEF             # a rule and a simple control collide
            else:
                top = max(p for _, p, _, _ in lst)
                tv = set(v for _, p, _, v in lst if p == top)
                ev[key] = tv.pop() if len(tv) == 1 else UNDEF
        events[t] = ev
    return events


def value_at(events, key, t, initial):
    v = initial[key]
    for te in sorted(events):
        if te > t:
            break
        if key in events[te]:
            v = events[te][key]
    return v


def run_case(c, rng):
    import wntr
    from vlib.gen import ctrl as gctrl
    variant = c.index % 3
    hyd = rng.choice([600, 900, 1800, 3600])
    start = rng.choice([0, 0, 3600, 6 * 3600, 13 * 3600 + 1800, 23 * 3600]) if rng.random() < 0.7 else \
        rng.choice([rng.randint(0, DAY - 1), DAY - rng.randint(1, 4 * hyd), 60 * rng.randint(0, 1439), DAY - 3 * hyd])
    opts = {'hyd': hyd, 'rule': rng.choice([hyd, hyd // 2, hyd // 3, 300, 360, 420]), 'start': start,
            'duration': hyd * rng.randint(4, 16) if rng.random() < 0.7 else rng.choice([DAY + 4 * hyd, 2 * DAY + 3 * hyd, 3 * DAY])}
    if opts['duration'] < DAY and rng.random() < 0.35:
        # short runs that still cross a clock midnight
        opts['start'] = start = (DAY - hyd * rng.randint(1, max(1, opts['duration'] // hyd - 1)) + rng.choice([0, 0, 1, hyd // 2, rng.randint(0, hyd - 1)])) % DAY
    if c.tier == 'quick' and opts['duration'] > DAY + 6 * hyd and hyd < 1800:
        opts['duration'] = DAY + 4 * hyd
    wn, status_targets = build_host(rng, variant, opts)
    schedule = gen_schedule(rng, opts, status_targets)
    wit = {'options': opts, 'host': variant, 'schedule': schedule}
    try:
        for cs in schedule:
            gctrl.add_control(wn, cs)
    except Exception as e:
        c.violate('control_construction_failed', 'building control %s raised %s: %s' % (cs, type(e).__name__, e), traceback=traceback.format_exc()[-1200:], **wit)
        return
    kinds = sorted((cs['kind'] + ('_clock' if cs.get('clock') else '') + ('_' + cs['cond']['kind'] if cs['kind'] == 'rule' else '') +
                    ('_else' if cs.get('else') else '')) for cs in schedule)
    c.set_sig(variant, ','.join(kinds), opts['hyd'], opts['rule'], opts['start'], opts['duration'])
    c.sample = {'options': opts, 'schedule': schedule[:4]}
    for cs in schedule:
        if cs.get('clock'):
            c.count('clocktime_controls')
        if cs['kind'] == 'rule':
            c.count('rules')
            if cs.get('else'):
                c.count('rules_with_else')
    if opts['start']:
        c.count('start_clocktime_nonzero')
    initial = {}
    for ln, l in wn.links():
        initial[(ln, 'status')] = 'OPEN'
    initial[('V', 'setting')] = 5.0
    initial[('PU', 'base_speed')] = 1.0
    events = timeline(schedule, opts, initial)
    keys = sorted(set(k for ev in events.values() for k in ev))
    # expected change instants
    change_instants = []
    cur = dict(initial)
    for t in sorted(events):
        changed = False
        for k, v in events[t].items():
            if v == UNDEF or cur.get(k) == UNDEF:
                cur[k] = v
                continue
            if cur.get(k) != v:
                changed = True
                cur[k] = v
        if changed:
            change_instants.append(t)
            c.count('expected_change_events')
            if t % opts['hyd'] != 0:
                c.count('offgrid_events_expected')
    if any(0 < t < opts['duration'] for t in change_instants):
        c.nontrivial = True
    n_conf = 0
    for t, ev in events.items():
        n_conf += sum(1 for v in ev.values() if v == UNDEF)
    # count resolved priority conflicts
    for cs in schedule:
        pass
    # ---- EPANET on the report grid -----------------------------------------------------------------
    wn_e = copy.deepcopy(wn)
    tr_e = simobs.run_epanet(wn_e)
    epa = tr_e.results if tr_e.ok else None
    # ---- WNTR with every solved instant reported ---------------------------------------------------
    wn.options.time.report_timestep = 'ALL'
    # every fifth schedule is run in two legs (duration raised, run_sim called again with a new simulator, no reset): the instants
    # at which controls and rules act are the same as in one run, wherever the pause lies relative to the rule grid
    import random as _random
    side = _random.Random(c.index * 334214459 + opts['hyd'] + opts['rule'])
    pause = None
    if side.random() < 0.3 and opts['duration'] >= 3 * opts['hyd']:
        pause = opts['hyd'] * side.randint(1, opts['duration'] // opts['hyd'] - 1)
        # preferably right before the rule instant at which some sim-time rule first becomes true
        firsts = []

        def leaves(cond):
            if cond['kind'] in ('and', 'or'):
                return leaves(cond['a']) + leaves(cond['b'])
            return [cond]
        for cs in schedule:
            if cs['kind'] != 'rule':
                continue
            for lf in leaves(cs['cond']):
                T = lf['time'] if lf['kind'] == 'simtime' else (lf['time'] - opts['start']) % DAY
                r_ = -(-T // opts['rule']) * opts['rule'] + (opts['rule'] if lf['op'] in ('>', '<=') and T % opts['rule'] == 0 else 0)
                p_ = opts['hyd'] * ((r_ - 1) // opts['hyd'])
                if 0 < p_ < opts['duration'] and r_ <= opts['duration'] and p_ % opts['rule'] != 0:
                    firsts.append(p_)
        if firsts and side.random() < 0.8:
            pause = side.choice(firsts)
            c.count('pauses_right_before_a_rule_instant')
        wit = dict(wit, run_in_two_legs_paused_at=pause)
        c.count('schedules_run_in_two_legs')
        wn.options.time.duration = pause
    tr = simobs.run_wntr(wn, deep=False)
    if tr.exception is not None:
        c.violate('run_sim_raised', 'WNTRSimulator.run_sim raised %s: %s' % (type(tr.exception).__name__, tr.exception), traceback=tr.traceback, **wit)
        return
    if not simobs.converged(tr):
        c.inconclusive('sim_failed')
        return
    res = tr.results
    S, SET = res.link['status'], res.link['setting']
    if pause is not None:
        import pandas as pd
        wn.options.time.duration = opts['duration']
        tr2 = simobs.run_wntr(wn, deep=False)
        if tr2.exception is not None:
            c.violate('run_sim_raised', 'second leg: WNTRSimulator.run_sim raised %s: %s' % (type(tr2.exception).__name__, tr2.exception), traceback=tr2.traceback, **wit)
            return
        if not simobs.converged(tr2):
            c.inconclusive('sim_failed')
            return
        S = pd.concat([S, tr2.results.link['status']])
        SET = pd.concat([SET, tr2.results.link['setting']])
    index = [int(x) for x in S.index]

    def observed(key, i):
        ln, attr = key
        if attr == 'status':
            v = int(S[ln].values[i])
            return 'CLOSED' if v == 0 else 'OPEN'
        return float(SET[ln].values[i])

    def same(a, b):
        if isinstance(a, str) or isinstance(b, str):
            return a == b
        return abs(a - b) <= 1e-9 * max(1.0, abs(b))

    # once-only clock-time controls and daily sim-time controls exist only in the API (the INP format has neither): EPANET says
    # nothing about their targets
    api_only = set((cs['target'], cs['attr']) for cs in schedule
                   if cs['kind'] == 'time' and bool(cs.get('daily', bool(cs.get('clock')))) != bool(cs.get('clock')))
    if api_only:
        c.count('schedules_with_api_only_controls')

    def epanet_value(key, t):
        if epa is None or key in api_only:
            return None
        ln, attr = key
        try:
            if attr == 'status':
                return 'CLOSED' if int(epa.link['status'].loc[t, ln]) == 0 else 'OPEN'
            return float(epa.link['setting'].loc[t, ln])
        except KeyError:
            return None
    # validate the timeline model against EPANET on the grid: where they disagree, nothing is demanded of WNTR
    distrusted = set()      # (key) for which the model is not confirmed by EPANET somewhere
    if epa is not None:
        for t in [int(x) for x in epa.link['status'].index]:
            for key in keys:
                want = value_at(events, key, t, initial)
                if want == UNDEF:
                    continue
                ev = epanet_value(key, t)
                if ev is None:
                    continue
                c.count('epanet_grid_points_compared')
                if not same(ev, want) and not (isinstance(want, float) and abs(ev - want) <= 1e-3 * max(1.0, abs(want))):
                    distrusted.add(key)
                    c.count('oracle_disagreement_points')
    # (a) every change instant is a solved instant
    for t in change_instants:
        if t <= opts['duration'] and t not in index:
            ks = [k for k, v in events[t].items() if v != UNDEF]
            if all(k in distrusted for k in ks):
                continue
            near = [x for x in index if abs(x - t) <= opts['hyd']]
            kind = 'event_instant_not_solved'
            c.violate(kind, "a control/rule changes %s at t = %s s but that instant is not in the 'ALL' index (nearby solved instants %s)" % (
                ks, t, near), instant=t, **wit)
            break
    # (b) value at every solved instant
    for i, t in enumerate(index):
        c.count('instants_judged')
        for key in keys:
            want = value_at(events, key, t, initial)
            if want == UNDEF or key in distrusted:
                continue
            c.count('target_instants_judged')
            have = observed(key, i)
            if not same(have, want):
                ev = epanet_value(key, t)
                if ev is not None and same(ev, have):
                    c.count('oracle_disagreement_points')
                    continue
                # mechanism labels for the two mechanisms found on the unchanged tree
                kind = 'target_value_wrong'
                cl = [cs for cs in schedule if cs.get('clock') and cs['target'] == key[0] and cs['attr'] == key[1]]
                rl = [cs for cs in schedule if cs['kind'] == 'rule' and any(a['target'] == key[0] and a['attr'] == key[1] for a in cs['then'] + cs.get('else', []))]
                if t == 0 and rl and not cl:
                    kind = 'rule_acted_before_first_solution'
                elif cl and not rl and len([cs for cs in schedule if cs['target' if cs['kind'] != 'rule' else 'name'] == key[0]]) >= 1:
                    kind = 'clocktime_control_wrong_instant'
                elif rl and any(_has_clock(cs['cond']) for cs in rl) and not cl:
                    kind = 'clocktime_rule_condition_wrong'
                c.violate(kind, '%s.%s at solved instant t = %s s (clock %s) is %s, the schedule gives %s%s' % (
                    key[0], key[1], t, _clock(t + opts['start']), have, want, '' if ev is None else ' (EPANET: %s)' % ev),
                    instant=t, target=key[0], attr=key[1], observed=have, expected=want, epanet=ev,
                    timeline=[(te, {('%s.%s' % k): v for k, v in events[te].items()}) for te in sorted(events) if te <= t + opts['hyd']][-8:], **wit)
                if len(c.violations) >= 3:
                    return
    # (c) index sanity: strictly increasing, contains the hydraulic grid
    if any(b <= a for a, b in zip(index, index[1:])):
        c.violate('index_not_increasing', 'solved instants are not strictly increasing: %s' % index[:20], **wit)
    if n_conf:
        c.count('undefined_conflicts_skipped', n_conf)
    pr = sum(1 for t, ev in events.items() for k, v in ev.items() if v != UNDEF and _n_assign(schedule, events, t, k, opts) > 1)
    if pr:
        c.count('priority_conflicts', pr)


def _n_assign(schedule, events, t, key, opts):
    """number of different values assigned to key at instant t by rules (for the conflict counter)."""
    vals = set()
    rs, start = opts['rule'], opts['start']
    if t % rs != 0 or t == 0:
        return 0
    for cs in schedule:
        if cs['kind'] != 'rule':
            continue
        acts = cs['then'] if cond_holds(cs['cond'], t, t - rs, start) else cs.get('else', [])
        for a in acts:
            if (a['target'], a['attr']) == key:
                vals.add(a['value'])
    return len(vals)


def _has_clock(cond):
    if cond['kind'] in ('and', 'or'):
        return _has_clock(cond['a']) or _has_clock(cond['b'])
    return cond['kind'] == 'clock'


def _clock(s):
    s = int(s) % DAY
    return '%02d:%02d:%02d' % (s // 3600, s % 3600 // 60, s % 60)
