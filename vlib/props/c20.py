"""C20 - demand, resilience and pump-cost metrics equal their documented formulas.

Events: the return values of the wntr.metrics functions on random networks, random result tables
and (for expected_demand) the demand a demand-driven WNTRSimulator run delivers.
Oracle: the documented formulas re-implemented here from the docstrings (plain loops, no pandas
broadcasting), and the simulator's delivered demand.
"""
import math
import traceback

from vlib.gen import net as gnet
from vlib import simobs

ID = 'C20'
LEVEL = 'exploration'
RULE = ('G-net networks (1-3 patterns of length 1-30 incl. lengths/timesteps whose period does not divide 24 h, 0-3 demands per junction '
        'with categories, demand multiplier, pattern_start, tanks with and without volume curves, head and power pumps, PRVs); per case: '
        'expected_demand (default and explicit windows, category filter) vs formula and vs a DD simulation, average_expected_demand vs the '
        'exact mean over a common period, population, WSA / Todini / MRI / tank_capacity / pump power-energy-cost on random result tables, '
        'annual_network_cost and annual_ghg_emissions vs the documented tables; signature = structural class + option class; non-trivial '
        '= at least one pattern whose period does not divide 24 h or pattern_start != 0 or >= 2 demand categories')
ASSUMPTIONS = ['pattern value at time t is multipliers[floor((t + pattern_start) / pattern_timestep) mod n] (what the simulator applies)',
               'global_efficiency is a percentage (75 means 0.75), as the options and pump_power document; 0.75 is used when it is None',
               'closest table entry by absolute difference; generated diameters/volumes/powers avoid exact ties']
FLOORS = {'quick': {'conclusive': 120, 'distinct_nontrivial': 60,
                    'counters': {'expected_demand_cells': 15000, 'sim_demand_cells': 1500, 'average_demand_junctions': 600,
                                 'period_not_dividing_day': 40, 'pattern_start_nonzero': 30, 'category_filtered': 60,
                                 'wsa_cells': 2000, 'todini_steps': 250, 'mri_cells': 1400, 'tank_capacity_cells': 250,
                                 'pump_cells': 120, 'annual_cost_models': 60, 'ghg_models': 60, 'population_junctions': 300}},
          'thorough': {'conclusive': 2000, 'distinct_nontrivial': 900,
                       'counters': {'expected_demand_cells': 300000, 'sim_demand_cells': 30000, 'average_demand_junctions': 12000,
                                    'period_not_dividing_day': 700, 'pattern_start_nonzero': 500, 'category_filtered': 1000,
                                    'wsa_cells': 40000, 'todini_steps': 5000, 'mri_cells': 28000, 'tank_capacity_cells': 5000,
                                    'pump_cells': 2400, 'annual_cost_models': 1000, 'ghg_models': 1000, 'population_junctions': 6000}}}
CASE_TIMEOUT = {'quick': 180, 'thorough': 400}

TANK_COST = [(500, 14020), (1000, 30640), (2000, 61210), (3750, 87460), (5000, 122420), (10000, 174930)]
DIAM_IN = [4, 6, 8, 10, 12, 14, 16, 18, 20, 24, 28, 30]
PIPE_COST = [8.31, 10.10, 12.10, 12.96, 15.22, 16.62, 19.41, 22.20, 24.66, 35.69, 40.08, 42.60]
PRV_COST = [323, 529, 779, 1113, 1892, 2282, 4063, 4452, 4564, 5287, 6122, 6790]
PUMP_COST = [(11310, 2850), (22620, 3225), (24880, 3307), (31670, 3563), (38000, 3820), (45240, 4133), (49760, 4339),
             (54280, 4554), (59710, 4823)]
PIPE_GHG = [5.90, 9.71, 13.94, 18.43, 23.16, 28.09, 33.09, 38.35, 43.76, 54.99, 66.57, 72.58]


# appended to RULE in the evidence (vlib/runner.py)
RULE_ADDENDUM = 'Added in round 4: reservoirs with net inflow in the hand-made result tables (Todini). Round 6: Pattern objects built with foreign time options (tuple, or taken from another model) added to the model and used by demands. Round 7: two fifths of the multi-pump cases present the energy table in reversed column order with a tariff per pump.'

def n_cases(tier):
    return 200 if tier == 'quick' else 3000


def closest(table, x):
    best = None
    for k, v in table:
        if best is None or abs(k - x) < abs(best[0] - x):
            best = (k, v)
    return best[1]


def near_tie(table, x, rel=1e-6):
    ks = sorted(abs(k - x) for k, _ in table)
    return len(ks) > 1 and abs(ks[0] - ks[1]) <= rel * max(1.0, abs(x))


def pat_value(mult, t, step, start, interp=False):
    if len(mult) == 0:
        return 1.0
    if len(mult) == 1:
        return mult[0]
    k = int((t + start) // step)
    m0 = mult[k % len(mult)]
    if not interp:
        return m0
    # options.time.pattern_interpolation: linear between the multiplier of this step and that of the next one (wrapping)
    m1 = mult[(k + 1) % len(mult)]
    return m0 + (m1 - m0) * ((t + start) - k * step) / float(step)


def close(a, b, rel=1e-9, ab=1e-12):
    if a != a and b != b:
        return True
    if a in (float('inf'), float('-inf')) or b in (float('inf'), float('-inf')):
        return a == b
    return abs(a - b) <= ab + rel * max(abs(a), abs(b))


def run_case(c, rng):
    import numpy as np
    import pandas as pd
    import wntr
    M = wntr.metrics
    spec = gnet.gen_spec(rng, n_junc=(2, 9) if c.tier == 'quick' else (2, 18), n_tank=(0, 2), n_valve=(0, 2), valve_types=('PRV', 'PRV', 'TCV'),
                         p_multi_demand=0.5, p_pattern_start=0.5, p_pdd=0.0, p_report_all=0.0, p_power_pump=0.3, p_booster=0.4,
                         p_vol_curve=0.4, steps=(3, 10), pump_curves=(1, 3))
    o = spec['options']
    # more hostile pattern clocks than the simulation generators use
    o['pattern_timestep'] = rng.choice([o['pattern_timestep'], 3600, 1800, 5400, 7200, 2700, 4 * 3600])
    if rng.random() < 0.5:
        o['pattern_start'] = rng.choice([0, o['pattern_timestep'], 3 * o['pattern_timestep'] + 600, 5400, 7 * 3600])
    wn = gnet.build(spec)
    # a Pattern *object* that brings its own time options (made for another model / another step) and is added to this model:
    # patterns always follow the model's options.time (add_pattern's documentation).  Side stream seeded by the case.
    import random as _random
    side = _random.Random(c.index * 67867967 + len(spec['junctions']))
    if side.random() < 0.3:
        from wntr.network.elements import Pattern
        mult = [gnet._round(side.uniform(0.2, 2.0), 3) for _ in range(side.choice([2, 3, 5, 7]))]
        foreign = side.choice([900, 1800, 3 * o['pattern_timestep'], o['pattern_timestep'] // 2 or 60])
        how = side.choice(['tuple', 'other_model'])
        if how == 'tuple':
            pobj = Pattern('PX', multipliers=mult, time_options=(side.choice([0, 600]), foreign))
        else:
            import wntr as _w
            other = _w.network.WaterNetworkModel()
            other.options.time.pattern_timestep = foreign
            other.add_pattern('PX', mult)
            pobj = other.get_pattern('PX')
        wn.add_pattern('PX', pobj)
        spec['patterns']['PX'] = mult
        for j in side.sample(spec['junctions'], min(2, len(spec['junctions']))):
            base = gnet._round(side.uniform(0.0005, 0.004), 5)
            wn.get_node(j['name']).add_demand(base, 'PX', None)
            j['demands'].append({'base': base, 'pattern': 'PX', 'category': None})
        c.count('foreign_pattern_object_cases')
    interp = rng.random() < 0.25
    wn.options.time.pattern_interpolation = interp        # whatever the generated spec said
    if interp:
        c.count('pattern_interpolation_cases')
    if rng.random() < 0.7:
        wn.options.energy.global_efficiency = rng.choice([75.0, 60.0, 82.5])
    wn.options.energy.global_price = rng.choice([0.0, 3.61e-8, 1e-7])
    for pn, pu in wn.pumps():
        if rng.random() < 0.3:
            pu.energy_price = rng.choice([2e-8, 5e-8])
    step, start, mult_opt = o['pattern_timestep'], o['pattern_start'], o['demand_multiplier']
    pats = spec['patterns']
    periods = [len(m) * step for m in pats.values()]
    odd = any((24 * 3600) % p != 0 for p in periods if p)
    cats = sorted(set(d['category'] for j in spec['junctions'] for d in j['demands'] if d['category']))
    if odd:
        c.count('period_not_dividing_day')
    if start:
        c.count('pattern_start_nonzero')
    c.nontrivial = odd or bool(start) or len(cats) >= 2
    c.set_sig(gnet.signature(spec), step, start, odd, len(cats))
    c.sample = {'spec_summary': gnet.signature(spec), 'pattern_timestep': step, 'pattern_start': start,
                'pattern_lengths': [len(m) for m in pats.values()], 'categories': cats}
    wit = {'spec': spec}

    def ref_demand(j, t, category=None):
        tot = 0.0
        for d in j['demands']:
            if category is not None and d['category'] != category:
                continue
            m = pat_value(pats[d['pattern']], t, step, start, interp) if d['pattern'] else 1.0
            tot += d['base'] * m * mult_opt
        return tot

    def guard(name, fn):
        try:
            return fn()
        except NotImplementedError:
            return None
        except Exception as e:
            c.violate(name + '_raised', '%s raised %s: %s' % (name, type(e).__name__, e), traceback=traceback.format_exc()[-1500:], **wit)
            return None

    # ---- expected_demand -----------------------------------------------------------------------
    windows = [(None, None, None, None)]
    windows.append((rng.choice([0, step, 2 * step + 300]), rng.choice([6, 30, 49]) * 3600, rng.choice([step, 900, 3600, 5000]), None))
    if cats:
        windows.append((None, None, None, rng.choice(cats)))
        c.count('category_filtered')
    for (st, en, ts, cat) in windows:
        ed = guard('expected_demand', lambda: M.expected_demand(wn, st, en, ts, category=cat))
        if ed is None:
            continue
        st_, en_ = (0 if st is None else st), (o['duration'] if en is None else en)
        ts_ = o['report_timestep'] if ts is None else ts
        want_idx = list(np.arange(st_, en_ + ts_, ts_))
        if list(ed.index) != want_idx or sorted(ed.columns) != sorted(j['name'] for j in spec['junctions']):
            c.violate('expected_demand_shape', 'expected_demand index/columns %s.. / %s, expected %s..' % (list(ed.index)[:5], list(ed.columns)[:5], want_idx[:5]), **wit)
            continue
        bad = None
        for j in spec['junctions']:
            col = ed[j['name']].values
            for k, t in enumerate(want_idx):
                c.count('expected_demand_cells')
                w = ref_demand(j, t, cat)
                if not close(float(col[k]), w):
                    bad = (j['name'], t, float(col[k]), w)
                    break
            if bad:
                break
        if bad:
            no_shift = sum(d['base'] * (pat_value(pats[d['pattern']], bad[1], step, 0) if d['pattern'] else 1.0) * mult_opt
                           for d in [x for jj in spec['junctions'] if jj['name'] == bad[0] for x in jj['demands']]
                           if cat is None or d['category'] == cat)
            kind = 'expected_demand_ignores_pattern_start' if (start and close(bad[2], no_shift)) else 'expected_demand_wrong'
            c.violate(kind, 'expected_demand(start=%s,end=%s,step=%s,category=%s)[%s] at t=%s is %.9g; base x pattern(t + pattern_start=%s) x multiplier = %.9g' % (
                st, en, ts, cat, bad[0], bad[1], bad[2], start, bad[3]), **wit)
    # ---- vs the simulator (DD) -------------------------------------------------------------------
    tr = simobs.run_wntr(wn, deep=False)
    res = tr.results if simobs.converged(tr) else None
    if res is not None:
        ed = guard('expected_demand', lambda: M.expected_demand(wn))
        dem = res.node['demand']
        S = res.link['status']
        from vlib.ref import hyd as ref
        topo = ref.Topo(wn)
        if ed is not None:
            bad = None
            for i, t in enumerate(dem.index):
                if t not in ed.index:
                    continue
                closed = set(ln for ln in topo.links if S[ln].values[i] == 0)
                conn = topo.connected_nodes(closed)
                for j in spec['junctions']:
                    if j['name'] not in conn:
                        continue
                    c.count('sim_demand_cells')
                    a, b = float(ed.loc[t, j['name']]), float(dem.loc[t, j['name']])
                    if abs(a - b) > 1e-9 + 1e-7 * abs(b):
                        bad = (j['name'], t, a, b)
                        break
                if bad:
                    break
            if bad:
                kind = 'expected_demand_ignores_pattern_start' if start else 'expected_demand_differs_from_simulator'
                c.violate(kind, 'expected_demand[%s] at t=%s is %.9g, WNTRSimulator (DD) delivered %.9g (pattern_start=%s)' % (bad + (start,)), **wit)
    # ---- average_expected_demand / population ------------------------------------------------------
    for cat in [None] + cats[:1]:
        av = guard('average_expected_demand', lambda: M.average_expected_demand(wn, category=cat))
        if av is None:
            continue
        for j in spec['junctions']:
            c.count('average_demand_junctions')
            w = sum(d['base'] * (sum(pats[d['pattern']]) / len(pats[d['pattern']]) if d['pattern'] else 1.0) * mult_opt
                    for d in j['demands'] if cat is None or d['category'] == cat)
            if not close(float(av[j['name']]), w, rel=1e-9):
                kind = 'average_demand_period_not_common' if odd else 'average_demand_wrong'
                c.violate(kind, 'average_expected_demand(category=%s)[%s] = %.9g; mean over a common period of all patterns = %.9g (pattern periods %s s)' % (
                    cat, j['name'], float(av[j['name']]), w, periods), **wit)
                break
    R = rng.choice([0.00000876157, 1e-5])
    pop = guard('population', lambda: M.population(wn, R))
    av = guard('average_expected_demand', lambda: M.average_expected_demand(wn))
    if pop is not None and av is not None:
        for j in spec['junctions']:
            c.count('population_junctions')
            w = float(np.round(float(av[j['name']]) / R))
            if float(pop[j['name']]) != w:
                c.violate('population_wrong', 'population[%s] = %s, round(average demand / R) = %s' % (j['name'], pop[j['name']], w), **wit)
                break
    # ---- metrics on random result tables ---------------------------------------------------------
    times = [k * o['report_timestep'] for k in range(rng.randint(2, 6))]
    jn = [j['name'] for j in spec['junctions']]
    allnodes = jn + [t['name'] for t in spec['tanks']] + [r['name'] for r in spec['reservoirs']]
    elev = {j['name']: j['elevation'] for j in spec['junctions']}
    press = pd.DataFrame({n: [rng.uniform(-5, 60) for _ in times] for n in allnodes}, index=times)
    for t in spec['tanks']:
        press[t['name']] = [rng.uniform(t['min_level'], t['max_level']) for _ in times]
    head = pd.DataFrame({n: [float(press.loc[tt, n]) + elev.get(n, 50.0) for tt in times] for n in allnodes}, index=times)
    demand = pd.DataFrame({n: [rng.choice([0.0, rng.uniform(0, 0.02)]) for _ in times] for n in allnodes}, index=times)
    for r_ in spec['reservoirs']:
        demand[r_['name']] = [-rng.uniform(-0.03, 0.1) for _ in times]      # mostly supplying, sometimes a reservoir that takes water in
    expd = pd.DataFrame({n: [rng.choice([0.0, rng.uniform(0.001, 0.02)]) for _ in times] for n in jn}, index=times)
    for n in jn:     # where nothing is expected nothing is delivered
        for tt in times:
            if expd.loc[tt, n] == 0.0:
                demand.loc[tt, n] = 0.0
    # WSA: three documented forms
    for label, e_, d_ in (('frame', expd, demand[jn]), ('per junction', expd.sum(axis=0), demand[jn].sum(axis=0)),
                          ('per time', expd.sum(axis=1), demand[jn].sum(axis=1))):
        w_ = guard('water_service_availability', lambda: M.water_service_availability(e_, d_))
        if w_ is None:
            continue
        flat_e = np.asarray(e_, dtype=float).ravel()
        flat_d = np.asarray(d_, dtype=float).ravel()
        flat_w = np.asarray(w_, dtype=float).ravel()
        for x, y, z in zip(flat_e, flat_d, flat_w):
            c.count('wsa_cells')
            if x == 0.0:
                ok = z != z if y == 0.0 else True
            else:
                ok = close(float(z), y / x)
            if not ok:
                c.violate('wsa_wrong', 'water_service_availability (%s): demand %.6g / expected %.6g gave %.6g' % (label, y, x, z), **wit)
                break
    # Todini
    pumps = spec['pumps']
    flow = pd.DataFrame({p['name']: [rng.uniform(0.001, 0.05) for _ in times] for p in pumps}, index=times)
    for p in pumps:         # pumps add head
        for tt in times:
            if head.loc[tt, p['end']] <= head.loc[tt, p['start']]:
                head.loc[tt, p['end']] = head.loc[tt, p['start']] + rng.uniform(1, 40)
    for n in jn:            # keep pressure = head - elevation for junctions
        press[n] = head[n] - elev[n]
    Pstar = rng.choice([15.0, 21.09, 30.0])
    td = guard('todini_index', lambda: M.todini_index(head, press, demand, flow, wn, Pstar))
    if td is not None:
        for tt in times:
            c.count('todini_steps')
            pout = sum(demand.loc[tt, n] * head.loc[tt, n] for n in jn)
            pexp = sum(demand.loc[tt, n] * (Pstar + elev[n]) for n in jn)
            pres = sum(-demand.loc[tt, r_['name']] * head.loc[tt, r_['name']] for r_ in spec['reservoirs'])
            ppump = sum(flow.loc[tt, p['name']] * (head.loc[tt, p['end']] - head.loc[tt, p['start']]) for p in pumps)
            den = pres + ppump - pexp
            w = (pout - pexp) / den if den != 0 else float('nan')
            if not close(float(td[tt]), w, rel=1e-8):
                c.violate('todini_wrong', 'todini_index at t=%s is %.9g, formula gives %.9g' % (tt, float(td[tt]), w), **wit)
                break
    # MRI
    el = pd.Series(elev)
    pj = press[jn]
    m1 = guard('modified_resilience_index', lambda: M.modified_resilience_index(pj, el, Pstar))
    if m1 is not None:
        for n in jn:
            for tt in times:
                c.count('mri_cells')
                w = (press.loc[tt, n] + elev[n] - (Pstar + elev[n])) / (Pstar + elev[n])
                if not close(float(m1.loc[tt, n]), w, rel=1e-9):
                    c.violate('mri_wrong', 'modified_resilience_index[%s, t=%s] = %.9g, formula %.9g' % (n, tt, float(m1.loc[tt, n]), w), **wit)
                    break
    m2 = guard('modified_resilience_index', lambda: M.modified_resilience_index(pj, el, Pstar, demand=demand[jn], per_junction=False))
    if m2 is not None:
        for tt in times:
            num = sum(demand.loc[tt, n] * (press.loc[tt, n] - Pstar) for n in jn)
            den = sum(demand.loc[tt, n] * (Pstar + elev[n]) for n in jn)
            w = num / den if den != 0 else float('nan')
            if not close(float(m2[tt]), w, rel=1e-8, ab=1e-10):
                c.violate('mri_wrong', 'system modified_resilience_index at t=%s = %.9g, formula %.9g' % (tt, float(m2[tt]), w), **wit)
                break
    # tank capacity
    if spec['tanks']:
        tn = [t['name'] for t in spec['tanks']]
        tc = guard('tank_capacity', lambda: M.tank_capacity(press[tn], wn))
        if tc is not None:
            for t in spec['tanks']:
                def vol(level, t=t):
                    if t['vol_curve']:
                        pts = spec['curves'][t['vol_curve']]['points']
                        for (l0, v0), (l1, v1) in zip(pts, pts[1:]):
                            if l0 <= level <= l1:
                                return v0 + (v1 - v0) * (level - l0) / (l1 - l0)
                        return pts[0][1] if level < pts[0][0] else pts[-1][1]
                    return math.pi * t['diameter'] ** 2 / 4.0 * level
                for tt in times:
                    c.count('tank_capacity_cells')
                    w = vol(press.loc[tt, t['name']]) / vol(t['max_level'])
                    if not close(float(tc.loc[tt, t['name']]), w, rel=1e-9):
                        c.violate('tank_capacity_wrong', 'tank_capacity[%s, t=%s] = %.9g, V(level)/V(max_level) = %.9g' % (t['name'], tt, float(tc.loc[tt, t['name']]), w), **wit)
                        break
    # pump power / energy / cost
    if pumps and wn.options.energy.global_efficiency is not None:
        eff = wn.options.energy.global_efficiency / 100.0
        if len(pumps) >= 2 and c.index % 5 < 2:
            flow = flow[list(reversed(list(flow.columns)))]      # result tables are addressed by label, in whatever column order
            for k_, p_ in enumerate(pumps):
                wn.get_link(p_['name']).energy_price = 1e-8 * (k_ + 2)      # every pump its own tariff
            c.count('pump_tables_in_another_column_order')
        pw = guard('pump_power', lambda: M.pump_power(flow, head, wn))
        en = guard('pump_energy', lambda: M.pump_energy(flow, head, wn))
        if en is not None and len(pumps) >= 2 and c.index % 5 < 2:
            en = en[list(reversed(list(en.columns)))]
        co = guard('pump_cost', lambda: M.pump_cost(en, wn)) if en is not None else None
        for p in pumps:
            price = wn.get_link(p['name']).energy_price
            if price is None:
                price = wn.options.energy.global_price
            for tt in times:
                c.count('pump_cells')
                w = 1000.0 * 9.81 * (head.loc[tt, p['end']] - head.loc[tt, p['start']]) * flow.loc[tt, p['name']] / eff
                if pw is not None and not close(float(pw.loc[tt, p['name']]), w, rel=1e-9):
                    c.violate('pump_power_wrong', 'pump_power[%s, t=%s] = %.9g, rho g dh q / eff = %.9g' % (p['name'], tt, float(pw.loc[tt, p['name']]), w), **wit)
                    break
                if en is not None and not close(float(en.loc[tt, p['name']]), w * o['report_timestep'], rel=1e-9):
                    c.violate('pump_energy_wrong', 'pump_energy[%s, t=%s] = %.9g, power x report step = %.9g' % (p['name'], tt, float(en.loc[tt, p['name']]), w * o['report_timestep']), **wit)
                    break
                if co is not None and not close(float(co.loc[tt, p['name']]), w * o['report_timestep'] * price, rel=1e-9, ab=1e-15):
                    c.violate('pump_cost_wrong', 'pump_cost[%s, t=%s] = %.9g, energy x price = %.9g' % (p['name'], tt, float(co.loc[tt, p['name']]), w * o['report_timestep'] * price), **wit)
                    break
    # ---- annual cost / GHG ---------------------------------------------------------------------
    diam_m = [d * 0.0254 for d in DIAM_IN]
    pipe_tab, prv_tab, ghg_tab = list(zip(diam_m, PIPE_COST)), list(zip(diam_m, PRV_COST)), list(zip(diam_m, PIPE_GHG))
    ghg = guard('annual_ghg_emissions', lambda: M.annual_ghg_emissions(wn))
    tie = any(near_tie(pipe_tab, p['diameter']) for p in spec['pipes'])
    if ghg is not None and not tie:
        c.count('ghg_models')
        w = sum(closest(ghg_tab, p['diameter']) * p['length'] for p in spec['pipes'])
        if not close(float(ghg), w, rel=1e-9):
            c.violate('ghg_wrong', 'annual_ghg_emissions = %.9g, documented table gives %.9g' % (float(ghg), w), **wit)
    eff_opt = wn.options.energy.global_efficiency
    cost = None
    try:
        cost = M.annual_network_cost(wn)
    except TypeError as e:
        if eff_opt is None and pumps:
            c.violate('annual_cost_raises_without_global_efficiency',
                      'annual_network_cost raised TypeError (%s) for a model with pumps and options.energy.global_efficiency=None (documented default 0.75)' % e, **wit)
        else:
            c.violate('annual_network_cost_raised', 'annual_network_cost raised TypeError: %s' % e, traceback=traceback.format_exc()[-1500:], **wit)
    except Exception as e:
        c.violate('annual_network_cost_raised', 'annual_network_cost raised %s: %s' % (type(e).__name__, e), traceback=traceback.format_exc()[-1500:], **wit)
    if cost is not None and not tie:
        def total(eff_fraction):
            tot = 0.0
            ties = False
            for t in spec['tanks']:
                if t['vol_curve']:
                    pts = spec['curves'][t['vol_curve']]['points']
                    tv = float(np.interp(t['max_level'], [p_[0] for p_ in pts], [p_[1] for p_ in pts]))
                    v = tv + t['min_level'] * tv / (t['max_level'] - t['min_level'])
                else:
                    v = math.pi * (t['diameter'] / 2.0) ** 2 * t['max_level']
                ties = ties or near_tie(TANK_COST, v)
                tot += closest(TANK_COST, v)
            for p in spec['pipes']:
                tot += closest(pipe_tab, p['diameter']) * p['length']
            for p in pumps:
                if p['type'] == 'POWER':
                    pm = p['power'] / eff_fraction
                else:
                    A, B, C = ref_curve(spec['curves'][p['curve']]['points'])
                    q = math.exp(math.log(A / (B * (C + 1))) / C)
                    pm = 9.81 * 1000 * q * (A - B * q ** C) / eff_fraction
                ties = ties or near_tie(PUMP_COST, pm, rel=1e-4)
                tot += closest(PUMP_COST, pm)
            for v in spec['valves']:
                if v['type'] == 'PRV':
                    ties = ties or near_tie(prv_tab, v['diameter'])
                    tot += closest(prv_tab, v['diameter'])
            return tot, ties
        percent = eff_opt if eff_opt is not None else 75.0      # documented default 0.75
        frac = percent / 100.0
        w, ties = total(frac)
        if not ties:
            c.count('annual_cost_models')
            if not close(float(cost), w, rel=1e-9):
                w_pct, _ = total(percent)
                kind = 'annual_cost_divides_by_percent' if (pumps and close(float(cost), w_pct, rel=1e-9)) else 'annual_cost_wrong'
                c.violate(kind, 'annual_network_cost = %.9g; documented tables and formula with eff = %s give %.9g (dividing the maximum pump power by %s instead gives %.9g)' % (
                    float(cost), frac, w, percent, w_pct), **wit)


def ref_curve(pts):
    """Documented head-curve fit: 1 point -> A=4H/3, B=H/(3Q^2), C=2; 3 points -> A - B q^C through all three."""
    if len(pts) == 1:
        q, h = pts[0]
        return 4.0 * h / 3.0, h / (3.0 * q * q), 2.0
    if len(pts) == 2:
        (q1, h1), (q2, h2) = pts
        B = (h1 - h2) / (q2 - q1)
        return h1 + B * q1, B, 1.0
    (q0, h0), (q1, h1), (q2, h2) = pts
    A = h0
    C = math.log((h0 - h2) / (h0 - h1)) / math.log(q2 / q1)
    B = (h0 - h1) / q1 ** C
    return A, B, C
