"""C17 - EPANET unit conversions are exact inverses with the right physical constants.

Monitor: every (flow unit, parameter) pair is one case; inside it every configuration
(mass unit x reaction order, or darcy flag) x container type is driven through the *real*
``wntr.epanet.util.to_si`` / ``from_si`` and four oracles are evaluated on each call pair:
inverse, linearity, container preservation, factor == independent physical table.
The discrete space is enumerated exhaustively; values are random (seeded).
"""
import math

ID = 'C17'
LEVEL = 'exploration'
EXHAUSTIVE = True
RULE = ('one case per (FlowUnits member x HydParam/QualParam member) - all 11 x 23 pairs enumerated; inside a '
        'case every mass unit x reaction order (QualParam) or darcy flag (HydParam) x container type '
        '{float,int,list,ndarray,dict,DataFrame(hyd)} is converted with random values; signature = the pair; '
        'non-trivial = the reference table predicts a factor != 1 for at least one configuration')
ASSUMPTIONS = ['reference factors are the physical definitions listed in the property statement and EPANET 2.2 manual '
               '(gal=3.785411784 L, Imp gal=4.54609 L, ft=0.3048 m, acre-ft=43560 ft3, psi=0.3048/0.4333 m, hp=745.699872 W)',
               'FlowUnits.SI is checked for inverse/linearity/container only where EPANET defines no unit (diameter, power, roughness)']
FLOORS = {'quick': {'conclusive': 250, 'distinct_nontrivial': 150, 'counters': {'pairs_checked': 4000}},
          'thorough': {'conclusive': 250, 'distinct_nontrivial': 150, 'counters': {'pairs_checked': 40000}}}

FT = 0.3048
FT3 = FT ** 3
GAL = 0.003785411784
IGAL = 0.00454609
FLOW = {'CFS': FT3, 'GPM': GAL / 60.0, 'MGD': 1e6 * GAL / 86400.0, 'IMGD': 1e6 * IGAL / 86400.0,
        'AFD': 43560.0 * FT3 / 86400.0, 'LPS': 1e-3, 'LPM': 1e-3 / 60.0, 'MLD': 1e3 / 86400.0,
        'CMH': 1.0 / 3600.0, 'CMD': 1.0 / 86400.0, 'SI': 1.0}
US = {'CFS', 'GPM', 'MGD', 'IMGD', 'AFD'}
METRIC = {'LPS', 'LPM', 'MLD', 'CMH', 'CMD'}
MASS = {'mg': 1e-6, 'ug': 1e-9, 'g': 1e-3, 'kg': 1.0}
PSI_M = 0.3048 / 0.4333

HYD = ['Elevation', 'Demand', 'HydraulicHead', 'Pressure', 'Length', 'PipeDiameter', 'Flow', 'Velocity',
       'HeadLoss', 'Power', 'Volume', 'EmitterCoeff', 'RoughnessCoeff', 'TankDiameter', 'Energy']
QUAL = ['Quality', 'LinkQuality', 'ReactionRate', 'Concentration', 'BulkReactionCoeff', 'WallReactionCoeff',
        'SourceMassInject', 'WaterAge']


# appended to RULE in the evidence (vlib/runner.py)
RULE_ADDENDUM = 'Added in round 5: dictionaries with unordered and integer keys. Round 6: pandas Series as a container.'

def n_cases(tier):
    return len(FLOW) * (len(HYD) + len(QUAL))


def ref_factor(u, p, darcy=False, mass='mg', order=0):
    """(factor, rel_tol) of the to-SI conversion, or None when no physical definition applies."""
    us, si = u in US, u == 'SI'
    if p in ('Demand', 'Flow'):
        return FLOW[u], 1e-8
    if p == 'EmitterCoeff':
        return FLOW[u] * (math.sqrt(1.0 / PSI_M) if us else 1.0), 1e-8
    if p == 'PipeDiameter':
        return None if si else ((0.0254 if us else 1e-3), 1e-12)
    if p == 'RoughnessCoeff':
        if not darcy:
            return 1.0, 0.0
        return None if si else ((1e-3 * FT if us else 1e-3), 1e-12)
    if p in ('TankDiameter', 'Elevation', 'HydraulicHead', 'Length', 'Velocity'):
        return (FT if us else 1.0), 1e-12
    if p == 'HeadLoss':
        return 1e-3, 1e-12
    if p == 'Energy':
        return 3.6e6, 1e-12
    if p == 'Power':
        return None if si else ((745.699872 if us else 1000.0), 1e-12)
    if p == 'Pressure':
        return (PSI_M if us else 1.0), 1e-12
    if p == 'Volume':
        return (FT3 if us else 1.0), 1e-12
    if p in ('Quality', 'LinkQuality', 'Concentration'):
        return MASS[mass] / 1e-3, 1e-12
    if p == 'ReactionRate':
        return MASS[mass] / 1e-3 / 86400.0, 1e-12
    if p == 'SourceMassInject':
        return MASS[mass] / 60.0, 1e-12
    if p == 'WaterAge':
        return 3600.0, 1e-12
    if p == 'BulkReactionCoeff':
        if order == 1:
            return 1.0 / 86400.0, 1e-12
        if order == 0:
            return 1.0, 0.0       # documented example: to_si(GPM, 0.45, Bulk, order 0) == 0.45
        return None
    if p == 'WallReactionCoeff':
        if order == 0:
            return (MASS[mass] * (FT * FT if us else 1.0) / 86400.0), 1e-6   # EPANET prints 0.092903 ft2
        if order == 1:
            return ((FT if us else 1.0) / 86400.0), 1e-12
        return None
    raise KeyError(p)


def _close(a, b, rel, ab=0.0):
    return abs(a - b) <= rel * max(abs(a), abs(b)) + ab


def run_case(c, rng):
    import numpy as np
    import pandas as pd
    from wntr.epanet import util
    FU, HP, QP, MU = util.FlowUnits, util.HydParam, util.QualParam, util.MassUnits
    units = list(FLOW)
    params = HYD + QUAL
    u = units[c.index // len(params)]
    p = params[c.index % len(params)]
    fu = FU[u]
    is_hyd = p in HYD
    par = HP[p] if is_hyd else QP[p]
    c.set_sig(u, p)
    # the classification itself is part of the statement
    if fu.is_traditional != (u in US) or fu.is_metric != (u in METRIC):
        c.violate('unit_system_flag', '%s: is_traditional=%s is_metric=%s' % (u, fu.is_traditional, fu.is_metric), unit=u)
    c.count('flag_checks')
    if is_hyd:
        configs = [{'darcy_weisbach': d} for d in (False, True)]
    else:
        configs = [{'mass_units': MU[m], 'reaction_order': o} for m in MASS for o in (0, 1, 2)]
    nval = 2 if c.tier == 'quick' else 25
    containers = ['float', 'int', 'list', 'ndarray', 'dict', 'series'] + (['dataframe'] if is_hyd else [])
    for cfg in configs:
        rf = ref_factor(u, p, darcy=cfg.get('darcy_weisbach', False),
                        mass=cfg['mass_units'].name if 'mass_units' in cfg else 'mg',
                        order=cfg.get('reaction_order', 0))
        if rf is not None and rf[0] != 1.0:
            c.nontrivial = True
        cfgs = {k: (v.name if hasattr(v, 'name') else v) for k, v in cfg.items()}
        for cont in containers:
            for _ in range(nval):
                mag = 10 ** rng.uniform(-4, 5)
                vals = [rng.choice([-1, 1]) * mag * rng.uniform(0.1, 1) for _ in range(rng.randint(1, 5))]
                if rng.random() < 0.15:
                    vals[0] = 0.0
                if cont == 'float':
                    x = vals[0]
                elif cont == 'int':
                    x = int(rng.randint(-10000, 10000))
                    vals = [float(x)]
                elif cont == 'list':
                    x = list(vals)
                elif cont == 'ndarray':
                    x = np.array(vals)
                elif cont == 'dict':
                    # keys in no particular order (natural node numbering is not lexicographic), of either type
                    ks = rng.choice([['k%d' % i for i in range(len(vals))], ['J%d' % (9 + i) for i in range(len(vals))], ['n%d' % (len(vals) - i) for i in range(len(vals))],
                                     [100 - 7 * i for i in range(len(vals))]])
                    x = {k_: v for k_, v in zip(ks, vals)}
                elif cont == 'series':
                    x = pd.Series(vals, index=['J%d' % (12 - i) for i in range(len(vals))])      # a results row: element names, unordered
                else:
                    x = pd.DataFrame({'a': vals, 'b': [2 * v for v in vals]}, index=[10 * i for i in range(len(vals))])
                wit = dict(unit=u, param=p, config=cfgs, container=cont)
                try:
                    y = util.to_si(fu, x, par, **cfg)
                    back = util.from_si(fu, y, par, **cfg)
                    z = util.from_si(fu, x, par, **cfg)
                    a = rng.choice([2.0, -3.0, 0.5, 7.25])
                    ya = util.to_si(fu, _scale(x, a, cont), par, **cfg)
                except Exception as e:
                    kind = 'container_rejected'
                    if (not is_hyd) and cont == 'dict' and isinstance(e, TypeError):
                        kind = 'qualparam_dict_typeerror'
                    c.violate(kind, '%s %s %s %s: %s: %s' % (u, p, cfgs, cont, type(e).__name__, str(e)[:150]), **wit)
                    continue
                c.count('pairs_checked')
                c.count('container_' + cont)
                fx, fy, fb, fz, fya = (_flat(v, cont) for v in (x, y, back, z, ya))
                if fy is None or fb is None or fz is None or fya is None or not (
                        len(fy) == len(fx) == len(fb) == len(fz) == len(fya)):
                    c.violate('container_changed', '%s %s %s: container %s not preserved: %r -> %r' % (
                        u, p, cfgs, cont, type(x).__name__, type(y).__name__), **wit)
                    continue
                if not _same_container(x, y, cont) or not _same_container(x, back, cont):
                    c.violate('container_changed', '%s %s %s: %s in, %s out, %s back' % (
                        u, p, cfgs, type(x).__name__, type(y).__name__, type(back).__name__), **wit)
                for xi, yi, bi, zi, yai in zip(fx, fy, fb, fz, fya):
                    if not _close(bi, xi, 1e-12, 1e-300):
                        c.violate('not_inverse', '%s %s %s %s: from_si(to_si(%r))=%r' % (u, p, cfgs, cont, xi, bi),
                                  x=xi, back=bi, **wit)
                    if not _close(yai, a * yi, 1e-12, 1e-300):
                        c.violate('not_linear', '%s %s %s %s: to_si(%g*x)=%r, %g*to_si(x)=%r' % (
                            u, p, cfgs, cont, a, yai, a, a * yi), **wit)
                    if rf is not None:
                        f, tol = rf
                        if not _close(yi, f * xi, max(tol, 1e-13), 1e-300):
                            c.violate('wrong_factor', '%s %s %s: to_si(%r)=%r, physical factor %r gives %r' % (
                                u, p, cfgs, xi, yi, f, f * xi), x=xi, y=yi, ref_factor=f, **wit)
                        if not _close(zi * f, xi, max(tol, 1e-13), 1e-300):
                            c.violate('wrong_factor', '%s %s %s: from_si(%r)=%r, physical factor %r' % (
                                u, p, cfgs, xi, zi, f), x=xi, z=zi, ref_factor=f, **wit)
                        c.count('factor_checks')
    c.sample = {'unit': u, 'param': p, 'configs': len(configs), 'containers': containers,
                'ref_factor_default': (ref_factor(u, p) or [None])[0]}


def _scale(x, a, cont):
    if cont in ('float', 'int'):
        return a * x
    if cont == 'list':
        return [a * v for v in x]
    if cont == 'dict':
        return {k: a * v for k, v in x.items()}
    return x * a


def _flat(v, cont):
    import numpy as np
    import pandas as pd
    try:
        if cont in ('float', 'int'):
            return [float(v)]
        if cont == 'dict':
            if not isinstance(v, dict):
                return None
            return [float(v[k]) for k in sorted(v)]
        if cont == 'dataframe':
            if not isinstance(v, pd.DataFrame):
                return None
            return [float(t) for t in np.asarray(v.values).ravel()]
        return [float(t) for t in np.asarray(v).ravel()]
    except Exception:
        return None


def _same_container(x, y, cont):
    import numpy as np
    import pandas as pd
    if cont in ('float', 'int'):
        return isinstance(y, (int, float, np.floating, np.integer)) and not isinstance(y, bool)
    if cont == 'list':
        return isinstance(y, list)
    if cont == 'ndarray':
        return isinstance(y, np.ndarray) and y.shape == x.shape
    if cont == 'dict':
        return isinstance(y, dict) and list(y.keys()) == list(x.keys())
    if cont == 'dataframe':
        return isinstance(y, pd.DataFrame) and list(y.index) == list(x.index) and list(y.columns) == list(x.columns)
    if cont == 'series':
        return isinstance(y, pd.Series) and list(y.index) == list(x.index)
    return False
