"""C15 - the compiled evaluator returns true residuals and Jacobian after any model history.

Events: after every `set_structure()` of a random add/remove/change-value history on a random
algebraic model: Model.evaluate_residuals(), Model.evaluate_jacobian(), Constraint.index,
Var.index, Model.get_x(), and the Python-side Constraint.evaluate()/reverse_ad().
Oracle: the generator's own expression tree evaluated with dual numbers (vlib/gen/expr.py).
A subset of the cases is repeated under the ASan+UBSan build of evaluator.cpp.
"""
import math

from vlib.gen import expr as gx

ID = 'C15'
LEVEL = 'exploration'
RULE = ('random expression DAGs (depth <= 5) over + - * / ** neg abs sign exp log sin cos tan asin acos atan, reflected '
        'operators with Python numbers incl. the folding constants 0 and 1, Float/Param leaves shared between constraints, '
        'inequalities (numeric and expression bounds), if_else inside expressions, ConditionalExpression constraints with 1-3 '
        'conditions + final branch, shared sub-expression objects inside and across constraints; histories of 6-30 steps: add '
        'constraint (attribute or ConstraintDict item), remove, re-add the same object, delete a whole ConstraintDict, set '
        'var/param values (incl. exactly on inequality bounds and on abs/sign kinks), load x, set_structure + full check; points '
        'outside the domain of definition are rejected by the reference and resampled; signature = multiset of operators + '
        'history shape; non-trivial = a conditional or shared sub-expression was checked after at least one removal')
ASSUMPTIONS = ['domain of definition: denominators, log arguments, non-integer-power bases >= 1e-3; |asin/acos arg| <= 0.995; '
               'both branches of an if_else must be defined (the RPN machine evaluates both)',
               'derivatives are not compared where they do not exist (abs/sign at 0, inequality exactly on a bound): values only',
               'sign(0) = +1 and inclusive bounds, as wntr.sim.aml.expr defines them',
               'tolerances: residual 1e-11 x largest intermediate magnitude; Jacobian 1e-8 x (1 + largest intermediate partial)']
FLOORS = {'quick': {'conclusive': 300, 'distinct_nontrivial': 100,
                    'counters': {'structure_checks': 1500, 'residuals_compared': 6000, 'jacobian_entries_compared': 15000,
                                 'conditional_rows': 1200, 'shared_subexpr_rows': 300, 'removals': 800, 'boundary_points': 150,
                                 'kink_points': 100, 'square_jacobians': 150, 'asan_cases': 60, 'get_x_compared': 4000}},
          'thorough': {'conclusive': 6000, 'distinct_nontrivial': 2000,
                       'counters': {'structure_checks': 30000, 'residuals_compared': 120000, 'jacobian_entries_compared': 300000,
                                    'conditional_rows': 24000, 'shared_subexpr_rows': 6000, 'removals': 16000,
                                    'boundary_points': 3000, 'kink_points': 2000, 'square_jacobians': 3000, 'asan_cases': 600,
                                    'get_x_compared': 80000}}}
CASE_TIMEOUT = {'quick': 120, 'thorough': 300}


# appended to RULE in the evidence (vlib/runner.py)
RULE_ADDENDUM = 'Added in round 5: 20 % of the plain expressions are extended by a throw-away larger expression (foreign or model variable) before they are registered. Round 7: 12 % of the plain constraints are constant-free (products of variables and parameters, possibly under exp / sin / cos).'

def n_cases(tier):
    return 640 if tier == 'quick' else 50000


def asan_cases(tier):
    return range(0, 120) if tier == 'quick' else range(0, 4000)


class Con(object):
    """Shadow of one constraint: generator trees + the WNTR Constraint object."""

    def __init__(self, name, kind, trees, container):
        self.name = name
        self.kind = kind            # 'plain' | 'cond'
        self.trees = trees          # plain: N ; cond: ([(ineq, expr)...], final)
        self.container = container  # 'attr' | dict name
        self.obj = None
        self.shared = 0

    def roots(self):
        if self.kind == 'plain':
            return [self.trees]
        br, fin = self.trees
        return [x for pair in br for x in pair] + [fin]

    def describe(self):
        if self.kind == 'plain':
            return gx.show(self.trees)
        br, fin = self.trees
        return ' ; '.join('if %s: %s' % (gx.show(c_), gx.show(e)) for c_, e in br) + ' ; else: ' + gx.show(fin)


def _var_ids(roots):
    out = set()
    seen = set()
    for r in roots:
        for n in gx.walk(r, seen):
            if n.k == 'var':
                out.add(n.a[0])
    return out


def gen_constraint(rng, ctx, name, container, depth):
    if rng.random() < 0.3:
        nb = rng.randint(1, 3)
        br = []
        for _ in range(nb):
            br.append((gx.gen_ineq(rng, ctx, depth - 2, simple=rng.random() < 0.7), _nonconst(rng, ctx, depth - 1)))
        return Con(name, 'cond', (br, _nonconst(rng, ctx, depth - 1)), container)
    if rng.random() < 0.12 and ctx.nvars >= 2:
        return Con(name, 'plain', _constfree(rng, ctx), container)
    return Con(name, 'plain', _nonconst(rng, ctx, depth), container)


def _constfree(rng, ctx):
    """A constraint without any numeric constant, in itself and in its derivatives (products of variables and parameters, possibly
    under exp / sin / cos): removing it takes no leaf out of the model when its variables are used elsewhere."""
    idx = rng.sample(range(ctx.nvars), min(ctx.nvars, rng.randint(2, 3)))
    e = ctx.leaf('var', idx[0])
    for i in idx[1:]:
        e = gx.N('mul', e, ctx.leaf('var', i))
    if ctx.nparams and rng.random() < 0.3:
        e = gx.N('mul', e, ctx.leaf('param', rng.randrange(ctx.nparams)))
    if rng.random() < 0.4:
        e = gx.N('mul', gx.N(rng.choice(['sin', 'cos', 'exp']), ctx.leaf('var', rng.randrange(ctx.nvars))), e)
    return e


def _nonconst(rng, ctx, depth):
    e = gx.gen_expr(rng, ctx, max(1, depth))
    # anchor with a variable so that folding cannot reduce the whole constraint to a number
    v = ctx.leaf('var', rng.randrange(ctx.nvars))
    if rng.random() < 0.5:
        return gx.N('add', e, v)
    return gx.N('sub', v, e)


def eval_con(con, ref):
    """Reference value/gradient of a constraint at ref's point -> (D, is_conditional_branch_index)."""
    if con.kind == 'plain':
        return ref.ev(con.trees), None
    br, fin = con.trees
    for i, (cnd, e) in enumerate(br):
        if ref.ev(cnd):
            return ref.ev(e), i
    return ref.ev(fin), len(br)


def run_case(c, rng):
    import numpy as np
    import scipy.sparse as sp
    from wntr.sim import aml
    from wntr.sim.aml.expr import Float, ExpressionBase

    tier_deep = c.tier == 'thorough'
    nvars = rng.randint(2, 6 if not tier_deep else 9)
    nparams = rng.randint(0, 3)
    nflt = rng.randint(0, 2)
    depth = rng.choice([2, 3, 3, 4, 4, 5])
    ctx = gx.Ctx(nvars, nparams, nflt, p_share=rng.choice([0.0, 0.1, 0.2, 0.35]))
    xv = [gx.nice_value(rng) for _ in range(nvars)]
    pv = [gx.nice_value(rng) for _ in range(nparams)]
    fv = [rng.choice([0.5, 2.0, 1.852, -1.25, 3.0, 1.0, -2.0]) for _ in range(nflt)]   # never 0: x / Float(0) is not a valid expression

    m = aml.Model()
    env = {'vars': [aml.Var(xv[i]) for i in range(nvars)], 'params': [aml.Param(pv[i]) for i in range(nparams)],
           'floats': [Float(fv[i]) for i in range(nflt)]}
    for i, v in enumerate(env['vars']):
        setattr(m, 'x%d' % i, v)
    for i, p in enumerate(env['params']):
        setattr(m, 'p%d' % i, p)
    dict_names = ['cd0', 'cd1']
    live_dicts = set()
    memo = {}
    live = {}            # name -> Con
    graveyard = []       # removed Con objects that may be re-added
    serial = [0]
    ops_log = []
    hist_shape = []
    removed_once = [False]
    state = {'stale': True}

    def fail(kind, msg, **w):
        c.violate(kind, msg, ops=ops_log[-40:], model=[(k, v.describe()) for k, v in live.items()][:12],
                  x=list(xv), p=list(pv), f=list(fv), **w)

    def build_obj(con):
        """Create the WNTR Constraint for a shadow constraint.  Returns False if it folded to a non-expression."""
        try:
            if con.kind == 'plain':
                e = gx.to_wntr(con.trees, env, memo)
                if not isinstance(e, ExpressionBase):
                    return False
                if rng.random() < 0.2 and not hasattr(e, 'value'):
                    # the expression is also part of a larger one that lives elsewhere (another model, a diagnostic): extending it
                    # with a foreign variable, or with one of the model's, before it is registered must not change what it is
                    z = aml.Var(1.5) if rng.random() < 0.5 else rng.choice(env['vars'])
                    _larger = (e * z) if rng.random() < 0.5 else (z + e)
                    con.extended_elsewhere = _larger          # keep it alive
                    c.count('expressions_extended_elsewhere_before_registration')
                con.obj = aml.Constraint(e)
            else:
                br, fin = con.trees
                ce = aml.ConditionalExpression()
                for cnd, e in br:
                    wc = gx.to_wntr(cnd, env, memo)
                    we = gx.to_wntr(e, env, memo)
                    if not isinstance(wc, ExpressionBase) or not isinstance(we, ExpressionBase):
                        return False
                    ce.add_condition(wc, we)
                wf = gx.to_wntr(fin, env, memo)
                if not isinstance(wf, ExpressionBase):
                    return False
                ce.add_final_expr(wf)
                con.obj = aml.Constraint(ce)
        except (ZeroDivisionError, OverflowError):
            return False     # constant folding of literals left the domain: not a valid expression
        except ValueError as e:
            if 'Divide by 0' in str(e) or 'math domain' in str(e):
                return False
            raise
        return True

    def register(con):
        try:
            if con.container == 'attr':
                setattr(m, con.name, con.obj)
            else:
                if con.container not in live_dicts:
                    setattr(m, con.container, aml.ConstraintDict())
                    live_dicts.add(con.container)
                getattr(m, con.container)[con.name] = con.obj
        except ValueError as e:
            if 'Divide by 0' in str(e):
                # the symbolic derivative divides by a sub-expression that folds to the constant 0:
                # the expression is singular everywhere, i.e. not a valid expression
                state['abandon'] = 'invalid_expression_divides_by_constant_zero'
                return False
            if 'math domain' in str(e):
                # c ** e with a constant base c <= 0 and a non-constant exponent: d/de = c**e * log(c) does not exist
                state['abandon'] = 'invalid_expression_log_of_nonpositive_constant'
                return False
            raise
        except Exception as e:
            import traceback
            fail('register_failed', 'registering valid constraint %s raised %s: %s' % (con.describe()[:300], type(e).__name__, e),
                 traceback=traceback.format_exc()[-1500:], constraint=con.describe())
            return False
        live[con.name] = con
        state['stale'] = True
        return True

    def op_add():
        serial[0] += 1
        name = 'c%d' % serial[0]
        container = 'attr' if rng.random() < 0.55 else rng.choice(dict_names)
        for _ in range(6):
            con = gen_constraint(rng, ctx, name, container, depth)
            try:
                ok = build_obj(con)
            except AssertionError:
                ok = False
            if ok:
                break
        else:
            return
        con.shared = gx.count_shared(con.roots())
        ops_log.append('add %s[%s] := %s' % (container, name, con.describe()[:400]))
        hist_shape.append('a')
        register(con)

    def op_remove():
        if not live:
            return
        name = rng.choice(sorted(live))
        con = live.pop(name)
        ops_log.append('remove %s[%s]' % (con.container, name))
        hist_shape.append('r')
        try:
            if con.container == 'attr':
                delattr(m, name)
            else:
                del getattr(m, con.container)[name]
        except Exception as e:
            import traceback
            fail('remove_failed', 'removing constraint %s raised %s: %s' % (name, type(e).__name__, e),
                 traceback=traceback.format_exc()[-1500:])
            return
        graveyard.append(con)
        removed_once[0] = True
        c.count('removals')
        state['stale'] = True

    def op_readd():
        if not graveyard:
            return
        con = graveyard.pop(rng.randrange(len(graveyard)))
        serial[0] += 1
        con.name = 'c%d' % serial[0]
        con.container = 'attr' if rng.random() < 0.5 else rng.choice(dict_names)
        ops_log.append('re-add same Constraint object as %s[%s]' % (con.container, con.name))
        hist_shape.append('A')
        c.count('readds')
        register(con)

    def op_del_dict():
        if not live_dicts:
            return
        dn = rng.choice(sorted(live_dicts))
        members = [k for k, v in live.items() if v.container == dn]
        ops_log.append('del model.%s (ConstraintDict with %d constraints)' % (dn, len(members)))
        hist_shape.append('D')
        try:
            delattr(m, dn)
        except Exception as e:
            import traceback
            fail('remove_failed', 'deleting ConstraintDict %s raised %s: %s' % (dn, type(e).__name__, e),
                 traceback=traceback.format_exc()[-1500:])
            return
        live_dicts.discard(dn)
        for k in members:
            graveyard.append(live.pop(k))
            c.count('removals')
        if members:
            removed_once[0] = True
        c.count('dict_deletions')
        state['stale'] = True

    def op_values(mode=None):
        mode = mode or rng.choice(['var', 'var', 'param', 'all', 'boundary', 'kink', 'kink', 'loadx'])
        hist_shape.append('v')
        if mode == 'var':
            i = rng.randrange(nvars)
            xv[i] = gx.nice_value(rng)
            env['vars'][i].value = xv[i]
            ops_log.append('x%d.value = %r' % (i, xv[i]))
        elif mode == 'param' and nparams:
            i = rng.randrange(nparams)
            pv[i] = gx.nice_value(rng)
            env['params'][i].value = pv[i]
            ops_log.append('p%d.value = %r' % (i, pv[i]))
        elif mode == 'boundary':
            # put a bare-variable inequality body exactly on / just beside one of its numeric bounds
            cands = []
            for con in live.values():
                for r in con.roots():
                    for n in gx.walk(r):
                        if n.k == 'ineq' and isinstance(n.a[0], gx.N) and n.a[0].k == 'var':
                            for b in (n.a[1], n.a[2]):
                                if b is not None and not isinstance(b, gx.N):
                                    cands.append((n.a[0].a[0], float(b)))
            if cands:
                i, b = rng.choice(cands)
                xv[i] = b + rng.choice([0.0, 0.0, 1 / 64.0, -1 / 64.0])
                env['vars'][i].value = xv[i]
                ops_log.append('x%d.value = %r (inequality bound %r)' % (i, xv[i], b))
        elif mode == 'kink':
            i = rng.randrange(nvars)
            under = [n.a[0].a[0] for con in live.values() for r_ in con.roots() for n in gx.walk(r_)
                     if n.k in ('abs', 'sign') and isinstance(n.a[0], gx.N) and n.a[0].k == 'var']
            if under and rng.random() < 0.7:
                i = rng.choice(under)        # a variable that sits directly under abs / sign in a live constraint
                c.count('kink_values_under_abs_or_sign')
            xv[i] = rng.choice([0.0, 0.0, 2.0 ** -14, -2.0 ** -14, 1e-6, -1e-6, -2.0 ** -11])     # on and right beside the kinks of abs / sign
            env['vars'][i].value = xv[i]
            ops_log.append('x%d.value = %r' % (i, xv[i]))
            state['force_check'] = True
        elif mode == 'loadx':
            if state['stale'] or not live:
                return
            regs = list(m.vars())
            if not regs:
                return
            arr = np.zeros(len(regs))
            new = {}
            for v in regs:
                i = env['vars'].index(v)
                new[i] = gx.nice_value(rng)
                arr[v.index] = new[i]
            try:
                if rng.random() < 0.5:
                    m.load_var_values_from_x(arr)
                else:
                    m.evaluate_residuals(arr)
            except Exception as e:
                fail('load_x_failed', 'load_var_values_from_x raised %s: %s' % (type(e).__name__, e))
                return
            for i, val in new.items():
                xv[i] = val
            ops_log.append('load x -> %s' % new)
            c.count('load_x')
        else:
            for i in range(nvars):
                xv[i] = gx.nice_value(rng)
                env['vars'][i].value = xv[i]
            ops_log.append('all x = %s' % xv)

    def check():
        """set_structure + compare everything observable with the reference."""
        if not live:
            return
        if state['stale'] or not state.get('structured') or rng.random() < 0.35:
            try:
                m.set_structure()
            except Exception as e:
                fail('set_structure_failed', 'set_structure raised %s: %s' % (type(e).__name__, e))
                return
            state['stale'] = False
            state['structured'] = True
            c.count('structure_checks')
            hist_shape.append('S')
        else:
            # values changed through .value / load since the last set_structure: the evaluator must follow without a new structure
            c.count('checks_without_new_structure')
            hist_shape.append('s')
        cons = list(m.cons())
        want = [v.obj for v in live.values()]
        if len(cons) != len(want) or set(map(id, cons)) != set(map(id, want)):
            fail('constraint_set_wrong', 'model.cons() has %d constraints, %d exist after the history' % (len(cons), len(want)),
                 have=[str(x.name) for x in cons], expected=sorted(live))
            return
        ncon = len(want)
        idx = [v.obj.index for v in live.values()]
        if sorted(idx) != list(range(ncon)):
            fail('constraint_index_wrong', 'Constraint.index values %s are not a permutation of 0..%d' % (idx, ncon - 1))
            return
        regs = list(m.vars())
        nreg = len(regs)
        vidx = {}
        for v in regs:
            vidx[env['vars'].index(v)] = v.index
        if sorted(vidx.values()) != list(range(nreg)):
            fail('var_index_wrong', 'Var.index values %s are not a permutation of 0..%d' % (vidx, nreg - 1))
            return
        try:
            jac_first = rng.random() < 0.5      # neither call may depend on the other having run first
            if not jac_first:
                r = np.array(m.evaluate_residuals())
            else:
                c.count('jacobian_before_residuals')
            if nreg == ncon:
                J = m.evaluate_jacobian()
                c.count('square_jacobians')
            else:
                ev = m._evaluator
                vals, cols, rows = ev.evaluate_csr_jacobian(ev.nnz, ev.nnz, ncon + 1)
                J = sp.csr_matrix((vals, cols, rows), shape=(ncon, max(nreg, 1)))
            if jac_first:
                r = np.array(m.evaluate_residuals())
            xs = np.array(m.get_x())
        except Exception as e:
            import traceback
            fail('evaluate_failed', 'evaluate_residuals/evaluate_jacobian raised %s: %s' % (type(e).__name__, e),
                 traceback=traceback.format_exc()[-1500:])
            return
        if len(r) != ncon:
            fail('residual_length_wrong', 'residual vector has %d entries for %d constraints' % (len(r), ncon))
            return
        for i, ci in vidx.items():
            c.count('get_x_compared')
            if xs[ci] != xv[i] or env['vars'][i].value != xv[i]:
                fail('get_x_wrong', 'get_x()[x%d.index=%d] = %r, Var.value = %r, value set = %r' % (i, ci, xs[ci], env['vars'][i].value, xv[i]))
        Jd = J.toarray()
        ref = gx.Ref(xv, pv, fv)
        for name, con in live.items():
            ref.kink = False
            ref.vscale = ref.gscale = 1.0
            try:
                d, branch = eval_con(con, ref)
            except gx.Reject as e:
                c.count('rejected_points')
                continue
            except (OverflowError, ZeroDivisionError, ValueError):
                c.count('rejected_points')
                continue
            row = con.obj.index
            c.count('residuals_compared')
            if con.kind == 'cond':
                c.count('conditional_rows')
                c.count('branch_%d_of_%d' % (min(branch, 3), min(len(con.trees[0]), 3)))
            has_ite = any(n.k == 'ite' for r_ in con.roots() for n in gx.walk(r_))
            if has_ite:
                c.count('ifelse_rows')
            if con.shared:
                c.count('shared_subexpr_rows')
            if ref.kink:
                c.count('kink_points')
                if any(n.k == 'ineq' for r_ in con.roots() for n in gx.walk(r_)):
                    c.count('boundary_points')
            if (con.kind == 'cond' or has_ite or con.shared) and removed_once[0]:
                c.nontrivial = True
            tol = 1e-11 * ref.vscale
            got = float(r[row])
            wit = dict(constraint=con.describe()[:1500], name=name, row=row, branch=branch)
            if not (abs(got - d.v) <= tol):
                fail('residual_wrong', 'residual[%d] of %s = %.17g, direct evaluation = %.17g (|diff| %.3g > %.3g)' % (
                    row, name, got, d.v, abs(got - d.v), tol), got=got, want=d.v, **wit)
                continue
            # Python-side evaluation of the same constraint
            try:
                pyv = con.obj.evaluate()
                if isinstance(pyv, bool) or not (abs(float(pyv) - d.v) <= tol):
                    fail('python_evaluate_wrong', 'Constraint.evaluate() of %s = %r, reference %.17g' % (name, pyv, d.v), **wit)
            except Exception as e:
                fail('python_evaluate_raised', 'Constraint.evaluate() of %s raised %s: %s' % (name, type(e).__name__, e), **wit)
            if ref.kink:
                continue
            gtol = 1e-8 * (1.0 + ref.gscale)
            used = _var_ids(con.roots())
            for i in range(nvars):
                g = d.g.get(i, 0.0)
                if i in vidx:
                    gj = float(Jd[row, vidx[i]])
                    c.count('jacobian_entries_compared')
                    err = abs(gj - g)
                    if not (err <= gtol):
                        kind = 'jacobian_wrong_shared_subexpr' if con.shared else 'jacobian_wrong'
                        fail(kind, 'd(%s)/d(x%d): Jacobian[%d,%d] = %.12g, true derivative = %.12g' % (
                            name, i, row, vidx[i], gj, g), got=gj, want=g, var=i, shared_nodes=con.shared, **wit)
                        break
                    if g != 0:
                        c.count('nonzero_derivatives')
                elif g != 0.0:
                    fail('variable_not_registered', 'x%d has derivative %.6g in %s but is not a model variable' % (i, g, name), **wit)
            else:
                # Python-side reverse-mode AD
                try:
                    ad = con.obj.reverse_ad()
                    for i in used:
                        v = env['vars'][i]
                        ga = aml.value(ad.get(v, 0.0))     # a Float leaf is a legitimate numeric result
                        g = d.g.get(i, 0.0)
                        c.count('python_ad_compared')
                        if not (abs(float(ga) - g) <= gtol):
                            kind = 'python_ad_wrong_shared_subexpr' if con.shared else 'python_ad_wrong'
                            fail(kind, 'reverse_ad d(%s)/d(x%d) = %r, true %.12g' % (name, i, ga, g), var=i, **wit)
                            break
                except Exception as e:
                    fail('python_ad_raised', 'Constraint.reverse_ad() of %s raised %s: %s' % (name, type(e).__name__, e), **wit)

    # ---- the history -----------------------------------------------------------------------
    nsteps = rng.randint(6, 16) if not tier_deep else rng.randint(8, 30)
    for _ in range(rng.randint(2, max(2, nvars))):
        op_add()
    if state.get('abandon'):
        c.inconclusive(state['abandon'])
        return
    check()
    for _ in range(nsteps):
        if len(c.violations) >= 3 or state.get('abandon'):
            break
        r = rng.random()
        if r < 0.22:
            op_add()
        elif r < 0.38:
            op_remove()
        elif r < 0.46:
            op_readd()
        elif r < 0.50:
            op_del_dict()
        elif r < 0.78:
            op_values()
            if state.pop('force_check', False) or (not state['stale'] and rng.random() < 0.7):
                check()
        else:
            check()
        if state.get('abandon'):
            break          # an invalid expression left the model half-registered: nothing after it is a verdict
        if state['stale'] and rng.random() < 0.6:
            check()
    if state.get('abandon'):
        c.inconclusive(state['abandon'])
        return
    if state['stale']:
        check()
    opsig = {}
    for con in list(live.values()) + graveyard:
        for r_ in con.roots():
            for n in gx.walk(r_):
                opsig[n.k] = opsig.get(n.k, 0) + 1
    c.set_sig(','.join('%s%d' % kv for kv in sorted(opsig.items())), ''.join(hist_shape))
    c.sample = {'ops': ops_log[:14], 'n_ops': len(ops_log), 'x': list(xv)}
