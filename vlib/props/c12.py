"""C12 - writing a model to an EPANET INP file and reading it back preserves it.

Events: m0 -> write(units u, version v) -> read -> m1 -> write -> read -> m2, and the two INP texts.
Oracle: canonical comparison m0 ~ m1 through to_dict(): same elements, connectivity, attributes to the
precision the writer prints, patterns, curves, demand categories, sources (compared without names),
options, tags, vertices, controls and rules (numbers inside their text compared with tolerance);
the statement's exclusions are removed from both sides first.  m1 ~ m2 and text1 ~ text2 (idempotence).
The C17 conversion contracts are live while the files are written and read.
"""
import json
import math
import os
import re
import shutil
import tempfile
import traceback

from vlib.gen import model as gmodel

ID = 'C12'
LEVEL = 'exploration'
UNITS = ['CFS', 'GPM', 'MGD', 'IMGD', 'AFD', 'LPS', 'LPM', 'MLD', 'CMH', 'CMD']
RULE = ('G-model restricted to what an INP file can hold (all element kinds incl. GPV/PBV, every curve type in use, 4 source types, all '
        'option groups, tags, vertices, multi-demand junctions with categories, controls on status/setting/speed with time, clock-time, '
        'tank-level and pressure conditions, rules with AND/OR (conjunctions of disjunctions)/ELSE/priority) x the ten flow units x INP '
        'versions 2.0 and 2.2; per case one model, 2-3 (units, version) combinations, two write/read cycles; every differing path of the '
        'canonical dictionaries is reported with its path class; signature = feature set + units + version; non-trivial = the model has '
        'at least two of {pump, valve, tank, control, rule, source, multi-demand, vertices, curve}')
ASSUMPTIONS = ['precision: 1e-6 relative + the absolute resolution of the printed field in file units (curves 6 decimals, times 1 s)',
               'outside the statement and removed before comparing: pattern interpolation, per-junction PDD parameters, leaks, empty patterns, '
               'typed curves that nothing refers to, names of sources and of simple controls, report_timestep ALL',
               'a demand pattern that is the default pattern is written as blank; None and the default pattern name are the same demand pattern on both sides',
               'version 2.0 files omit the EPANET 2.2-only options (demand model and PDD parameters, headerror, flowchange, tank overflow)']
FLOORS = {'quick': {'conclusive': 100, 'distinct_nontrivial': 60,
                    'counters': dict({'roundtrips': 250, 'second_cycles': 200, 'version_20': 80, 'version_22': 80,
                                      'numeric_fields_compared': 30000, 'controls_compared': 200, 'rules_compared': 150,
                                      'models_with_sources': 40, 'models_with_valves': 40, 'models_with_pumps': 40},
                                     **{'units_covered_' + u: 8 for u in UNITS})},
          'thorough': {'conclusive': 1400, 'distinct_nontrivial': 800,
                       'counters': dict({'roundtrips': 4500, 'second_cycles': 4000, 'version_20': 1500, 'version_22': 1500,
                                         'numeric_fields_compared': 500000, 'controls_compared': 3000, 'rules_compared': 2200,
                                         'models_with_sources': 600, 'models_with_valves': 600, 'models_with_pumps': 600},
                                        **{'units_covered_' + u: 150 for u in UNITS})}}
CASE_TIMEOUT = {'quick': 240, 'thorough': 600}
NUM = re.compile(r'^[-+]?(\d+\.?\d*|\.\d+)([eE][-+]?\d+)?$')


# appended to RULE in the evidence (vlib/runner.py)
RULE_ADDENDUM = 'Added in round 4: start clock times in every hour of the day (G-model). Round 7: the keyword options of [REPORT] (status, summary, energy) are generated and compared; every third chemical model changes its concentration unit between two writes.'

def n_cases(tier):
    return 200 if tier == 'quick' else 10000


# ------------------------------------------------------------------------------------------------
# canonical form
# ------------------------------------------------------------------------------------------------
def canon(wn, version):
    d = json.loads(json.dumps(wn.to_dict(), default=str))
    d.pop('version', None)
    d.pop('comment', None)
    d.pop('name', None)             # the reader names the model after the file
    d.pop('references', None)
    default_pat = d['options']['hydraulic'].get('pattern')
    pat_names = set(p['name'] for p in d.get('patterns', []))
    if default_pat not in pat_names:
        # a default pattern name that no pattern carries means "no default pattern" (multiplier 1), as in EPANET
        default_pat = None
        d['options']['hydraulic']['pattern'] = None
    used_curves = set()
    for n in d['nodes']:
        for k in ('leak', 'leak_area', 'leak_discharge_coeff', 'minimum_pressure', 'required_pressure', 'pressure_exponent'):
            n.pop(k, None)
        if n['node_type'] == 'Junction':
            dl = n.get('demand_timeseries_list') or []
            for dem in dl:
                # blank pattern in the file = the default pattern
                if dem.get('pattern_name') in (None, '') and default_pat in pat_names:
                    dem['pattern_name'] = default_pat
                if dem.get('pattern_name') == '' or (dem.get('pattern_name') is not None and dem['pattern_name'] not in pat_names):
                    dem['pattern_name'] = None      # the name of a default pattern that does not exist: constant demand
            if not dl or all((x.get('base_val') or 0.0) == 0.0 for x in dl):
                # a junction whose demands are all zero is a junction without demand in the file
                n['demand_timeseries_list'] = []
            for k in ('base_demand', 'demand_pattern', 'demand_category', 'pattern_name'):
                n.pop(k, None)
            if n.get('emitter_coefficient') in (None, 0, 0.0):
                n['emitter_coefficient'] = None
        if n['node_type'] == 'Tank':
            if n.get('vol_curve_name'):
                used_curves.add(n['vol_curve_name'])
            if version == 2.0:
                n.pop('overflow', None)
            if n.get('mixing_model') in (None, 'Mix1', 'Mixed', 'MIXED'):
                n['mixing_model'] = None       # complete mixing is the default and is not written
            if n.get('mixing_model') != 'Mix2' and n.get('mixing_model') != 'TwoComp':
                n.pop('mixing_fraction', None)
        if n.get('initial_quality') in (None, 0, 0.0):
            n['initial_quality'] = 0.0
        n.setdefault('tag', None)
    for l in d['links']:
        for k in ('pump_curve_name', 'headloss_curve_name'):
            if l.get(k):
                used_curves.add(l[k])
        if isinstance(l.get('efficiency'), dict):
            used_curves.add(l['efficiency'].get('name'))
            l['efficiency'] = l['efficiency'].get('name')
        elif isinstance(l.get('efficiency'), str):
            used_curves.add(l['efficiency'])
        l.setdefault('tag', None)
        if l.get('speed_pattern_name') == '':
            l['speed_pattern_name'] = None
        for k in ('bulk_coeff', 'wall_coeff'):
            if l.get(k) in (0, 0.0):
                l[k] = None
    d['curves'] = [c_ for c_ in d.get('curves', []) if c_['name'] in used_curves]     # typed curves nothing refers to are outside the statement
    d['patterns'] = [p for p in d.get('patterns', []) if len(p.get('multipliers') or []) > 0]
    # sources are stored without names
    d['sources'] = sorted(({k: v for k, v in s_.items() if k != 'name'} for s_ in d.get('sources', [])), key=lambda s_: (s_['node_name'], s_['source_type']))
    for s_ in d['sources']:
        if s_.get('pattern') == '':
            s_['pattern'] = None
    # controls: simple controls lose their names
    ctl = []
    for c_ in d.get('controls', []):
        c_ = dict(c_)
        if c_.get('type') == 'simple':
            c_.pop('name', None)
        for k in ('condition',):
            c_[k] = ' '.join(str(c_[k]).split())
        for k in ('then_actions', 'else_actions'):
            if k in c_:
                c_[k] = [' '.join(str(a).split()) for a in c_[k]]
        ctl.append(c_)
    d['controls'] = sorted(ctl, key=lambda c_: (c_.get('type'), str(c_.get('name')), c_['condition'], str(c_.get('then_actions'))))
    o = d['options']
    o['time'].pop('pattern_interpolation', None)
    o.pop('graphics', None)
    o.pop('user', None)
    rep_ = o.pop('report', None) or {}
    o['report'] = {k: (str(rep_.get(k)).upper() if rep_.get(k) is not None else None) for k in ('status', 'summary', 'energy')}     # the three keyword options of [REPORT]
    for k in ('hydraulics', 'hydraulics_filename', 'inpfile_units', 'inpfile_pressure_units'):
        o['hydraulic'].pop(k, None)
    o['quality'].pop('inpfile_units', None)
    if version == 2.0:
        for k in ('demand_model', 'minimum_pressure', 'required_pressure', 'pressure_exponent', 'headerror', 'flowchange'):
            o['hydraulic'].pop(k, None)
    if o['hydraulic'].get('unbalanced') == 'STOP':
        o['hydraulic'].pop('unbalanced_value', None)
    return d


def tokens_close(a, b, rel):
    ta, tb = str(a).split(), str(b).split()
    if len(ta) != len(tb):
        return False
    for x, y in zip(ta, tb):
        if x == y:
            continue
        if NUM.match(x) and NUM.match(y):
            fx, fy = float(x), float(y)
            if abs(fx - fy) <= rel * max(abs(fx), abs(fy)) + 1e-9:
                continue
        if ':' in x and ':' in y:
            continue_ = _hms(x) is not None and _hms(x) == _hms(y)
            if continue_:
                continue
        return False
    return True


def _hms(s):
    try:
        parts = [float(p) for p in s.split(':')]
    except ValueError:
        return None
    while len(parts) < 3:
        parts.append(0.0)
    return round(parts[0] * 3600 + parts[1] * 60 + parts[2])


def diff(a, b, path, out, c, rel=1e-6, limit=14):
    if len(out) >= limit:
        return
    if isinstance(a, dict) and isinstance(b, dict):
        for k in sorted(set(a) | set(b)):
            if k not in a:
                if b[k] not in (None, [], {}, False, 0, 0.0, ''):
                    out.append((path + '/' + k, '<absent>', b[k]))
            elif k not in b:
                if a[k] not in (None, [], {}, False, 0, 0.0, ''):
                    out.append((path + '/' + k, a[k], '<absent>'))
            else:
                diff(a[k], b[k], path + '/' + k, out, c, rel, limit)
    elif isinstance(a, list) and isinstance(b, list):
        named = a and b and all(isinstance(x, dict) and 'name' in x for x in a + b)
        if named:
            da, db = {x['name']: x for x in a}, {x['name']: x for x in b}
            for k in sorted(set(da) | set(db), key=str):
                if k not in da or k not in db:
                    out.append(('%s[%s]' % (path, k), 'present' if k in da else '<absent>', 'present' if k in db else '<absent>'))
                else:
                    diff(da[k], db[k], '%s[%s]' % (path, k), out, c, rel, limit)
        else:
            if len(a) != len(b):
                out.append((path + '[len]', a if len(json.dumps(a)) < 300 else len(a), b if len(json.dumps(b)) < 300 else len(b)))
                return
            for i, (x, y) in enumerate(zip(a, b)):
                diff(x, y, '%s[%d]' % (path, i), out, c, rel, limit)
    else:
        if isinstance(a, bool) or isinstance(b, bool):
            if bool(a) != bool(b):
                out.append((path, a, b))
            return
        if isinstance(a, (int, float)) and isinstance(b, (int, float)):
            c.count('numeric_fields_compared')
            if not (abs(a - b) <= rel * max(abs(a), abs(b)) + abs_tol(path)):
                out.append((path, a, b))
            return
        if isinstance(a, str) and isinstance(b, str) and a != b:
            if tokens_close(a, b, max(rel, 1e-5)):
                return
        if a != b:
            if a in (None, '') and b in (None, ''):
                return
            out.append((path, a, b))


def abs_tol(path):
    """Absolute resolution of the printed field, in SI, by path class (generous: the largest unit factor)."""
    if '/curves' in path and '/points' in path:
        return 1e-5          # {:12f}: 6 decimals in file units; the coarsest unit for a curve axis is ~1 (m3 <- acre-ft is finer)
    if '/vertices' in path or '/coordinates' in path:
        return 1e-6
    if '/options/time' in path:
        return 0.5
    return 1e-12


def path_class(p):
    p = re.sub(r'\[[^\]]*\]', '/*', p)
    return p.strip('/')


def run_case(c, rng):
    import wntr
    g = gmodel.Gen(rng, inp=True, size=(2, 8) if c.tier == 'quick' else (2, 16))
    try:
        wn = g.build()
    except Exception as e:
        c.inconclusive('generator_failed: %s: %s' % (type(e).__name__, str(e)[:200]))
        c.notes.append(traceback.format_exc()[-1500:])
        return
    feats = set(g.features)
    if wn.num_pumps:
        feats.add('pump')
        c.count('models_with_pumps')
    if wn.num_valves:
        feats.add('valve')
        c.count('models_with_valves')
    if wn.num_tanks:
        feats.add('tank')
    if wn.num_sources:
        c.count('models_with_sources')
    if wn.num_curves:
        feats.add('curve')
    combos = [(rng.choice(UNITS), rng.choice([2.0, 2.2])), (UNITS[c.index % 10], 2.2 if (c.index // 10) % 2 == 0 else 2.0)]
    if c.tier == 'thorough':
        combos.append((rng.choice(UNITS), rng.choice([2.0, 2.2])))
    c.set_sig(','.join(sorted(feats)), wn.num_nodes, wn.num_links, wn.num_controls, *combos[1])
    c.nontrivial = len(feats & {'pump', 'valve', 'tank', 'control', 'rule', 'rule_else', 'source', 'multi_demand', 'pipe_vertices', 'valve_vertices', 'curve'}) >= 2
    c.sample = {'features': sorted(feats), 'nodes': wn.num_nodes, 'links': wn.num_links, 'controls': wn.num_controls, 'combos': combos,
                'calls': g.log[:5]}
    wit = {'calls': g.log[-70:]}
    tmp = tempfile.mkdtemp(prefix='verif_c12_')
    try:
        for units, version in combos:
            c.count('roundtrips')
            c.count('units_covered_' + units)
            c.count('version_20' if version == 2.0 else 'version_22')
            w = dict(wit, units=units, version=version)
            f1 = os.path.join(tmp, 'a.inp')
            f2 = os.path.join(tmp, 'b.inp')
            try:
                d0 = canon(wn, version)
                wntr.network.write_inpfile(wn, f1, units=units, version=version)
            except Exception as e:
                c.violate('write_raised', 'write_inpfile(units=%s, version=%s) raised %s: %s' % (units, version, type(e).__name__, str(e)[:300]),
                          traceback=traceback.format_exc()[-1800:], **w)
                continue
            try:
                m1 = wntr.network.WaterNetworkModel(f1)
            except Exception as e:
                c.violate('read_raised', 'reading the file written with units=%s, version=%s raised %s: %s' % (units, version, type(e).__name__, str(e)[:300]),
                          traceback=traceback.format_exc()[-1800:], inp_text=open(f1).read()[-3000:], **w)
                continue
            d1 = canon(m1, version)
            out = []
            diff(d0, d1, '', out, c)
            seen = set()
            for p, a, b in out:
                pc = path_class(p)
                if pc in seen:
                    continue
                seen.add(pc)
                c.violate('inp_differs:' + pc, 'units=%s version=%s: %s was %s, is %s after write/read' % (
                    units, version, p, json.dumps(a)[:220], json.dumps(b)[:220]), path=p, before=a, after=b, **w)
            c.count('controls_compared', sum(1 for x in d0['controls'] if x.get('type') == 'simple'))
            c.count('rules_compared', sum(1 for x in d0['controls'] if x.get('type') == 'rule'))
            if out:
                continue
            # second cycle changes nothing further
            try:
                wntr.network.write_inpfile(m1, f2, units=units, version=version)
                m2 = wntr.network.WaterNetworkModel(f2)
            except Exception as e:
                c.violate('second_cycle_raised', 'second write/read (units=%s, version=%s) raised %s: %s' % (units, version, type(e).__name__, str(e)[:300]),
                          traceback=traceback.format_exc()[-1800:], **w)
                continue
            c.count('second_cycles')
            out2 = []
            diff(d1, canon(m2, version), '', out2, c, rel=1e-9)
            # history: the concentration unit of the file is changed on a model that has already been written / read once (its
            # InpFile object is kept on the model), then written again - header and values of the new file must agree
            if not out2 and str(m1.options.quality.parameter).upper() == 'CHEMICAL' and c.index % 3 == 0:
                try:
                    m1.options.quality.inpfile_units = 'ug/L' if 'ug' not in str(m1.options.quality.inpfile_units).lower() else 'mg/L'
                    wntr.network.write_inpfile(m1, f2 + '.u', units=units, version=version)
                    m3 = wntr.network.WaterNetworkModel(f2 + '.u')
                    c.count('cycles_after_changing_the_concentration_unit')
                    out3 = []
                    diff(d1, canon(m3, version), '', out3, c, rel=1e-9)
                    for p, a, b in out3[:3]:
                        c.violate('inp_differs_after_unit_change:' + path_class(p), 'units=%s version=%s, concentration unit changed to %s before the second write: %s was %s, is %s' % (
                            units, version, m1.options.quality.inpfile_units, p, json.dumps(a)[:200], json.dumps(b)[:200]), **w)
                except Exception as e:
                    c.violate('second_cycle_raised', 'write/read after changing the concentration unit raised %s: %s' % (type(e).__name__, str(e)[:300]),
                              traceback=traceback.format_exc()[-1800:], **w)
            for p, a, b in out2[:3]:
                c.violate('second_cycle_differs:' + path_class(p), 'units=%s version=%s second cycle: %s was %s, is %s' % (
                    units, version, p, json.dumps(a)[:200], json.dumps(b)[:200]), **w)
            def sections(fn):
                out_, sec = {}, None
                for ln in open(fn, errors='replace').read().splitlines():
                    tok = ln.split(';')[0].split()
                    if not tok:
                        continue
                    if tok[0].startswith('['):
                        sec = tok[0].upper()
                        continue
                    if sec == '[OPTIONS]' and tok[0].upper() == 'PATTERN' and len(tok) > 1 and tok[1] not in m1.pattern_name_list:
                        continue      # the name of a default pattern that does not exist has no effect
                    if sec == '[JUNCTIONS]' and len(tok) >= 3 and NUM.match(tok[2]) and float(tok[2]) == 0.0:
                        tok = tok[:3]     # the pattern of a zero demand has no effect
                    if sec not in (None, '[TITLE]'):
                        out_.setdefault(sec, []).append(' '.join(tok))
                return {k: sorted(v) for k, v in out_.items()}      # element order inside a section is not part of the model
            s1, s2 = sections(f1), sections(f2)
            for sec in sorted(set(s1) | set(s2)):
                a_, b_ = s1.get(sec, []), s2.get(sec, [])
                if len(a_) != len(b_):
                    c.violate('second_text_differs', 'units=%s version=%s: section %s has %d data lines in the first file and %d in the second (e.g. %s)' % (
                        units, version, sec, len(a_), len(b_), [x for x in a_ if x not in b_][:2] + [x for x in b_ if x not in a_][:2]), **w)
                    break
                bad = [(x, y) for x, y in zip(a_, b_) if x != y and not tokens_close(x, y, 1e-9)]
                if bad:
                    c.violate('second_text_differs', 'units=%s version=%s: section %s line %r became %r' % (units, version, sec, bad[0][0][:200], bad[0][1][:200]), **w)
                    break
    finally:
        shutil.rmtree(tmp, ignore_errors=True)
