"""C11 - simulating never alters the model definition; reset and rerun reproduce results.

Contract at the run_sim boundary of both simulators (to_dict snapshot before / after), plus the
history oracle run 1 / reset_initial_values / run 2 and equal-model oracles (deepcopy, pickle,
dict round trip).
"""
import os
import copy
import json
import pickle

from vlib.gen import net as gnet, ctrlgen
from vlib import simobs
from vlib.props import suite

ID = 'C11'
LEVEL = 'exploration'
RULE = ('seeded random networks built through the API *without* a prior reset (initial statuses OPEN/CLOSED/ACTIVE on pipes, '
        'pumps and valves), with status/setting controls, rules, leaks, PDD, report steps that are not multiples of the '
        'hydraulic step, plus perturbed example networks; per case 1-3 run/reset/run cycles with WNTRSimulator, an '
        'EpanetSimulator run, and runs of a deepcopy / pickle copy / dict copy; signature = structural class + cycle plan; '
        'non-trivial = a control, leak or non-default initial status exists')
ASSUMPTIONS = ['definition = wn.to_dict() normalised through JSON',
               'rerun tolerance 1e-8 + 1e-8 relative on head/demand/flowrate/leak, statuses identical',
               'runs that do not converge are inconclusive (C16); EPANET errors on features it lacks are inconclusive']
FLOORS = {'quick': {'conclusive': 60, 'distinct_nontrivial': 40,
                    'counters': {'wntr_dict_checks': 150, 'epanet_dict_checks': 40, 'reset_rerun_pairs': 80,
                                 'copy_runs': 80, 'nondefault_initial_status_cases': 30, 'odd_report_step_cases': 8}},
          'thorough': {'conclusive': 900, 'distinct_nontrivial': 500,
                       'counters': {'wntr_dict_checks': 2200, 'epanet_dict_checks': 600, 'reset_rerun_pairs': 1200,
                                    'copy_runs': 1200, 'nondefault_initial_status_cases': 450, 'odd_report_step_cases': 120}}}
CASE_TIMEOUT = {'quick': 180, 'thorough': 400}


# appended to RULE in the evidence (vlib/runner.py)
RULE_ADDENDUM = 'Added in rounds 4-5: every second case reuses one simulator object across resets; junction / zone isolation schedules; the model edited after its runs (pump curve points, roughness, base demand), reset and compared with an equal model rebuilt from its dictionary. Round 6: options.report.nodes / links as shuffled name lists in 35 % of the cases. Round 7: every third case also writes the model as an EPANET 2.0 file (write_inpfile(version=2.0)) and re-checks the definition.'

def n_cases(tier):
    return base_cases(tier) + len(suite.files(tier))     # + the repository's own tests under the monitor (vlib/props/suite.py)


def base_cases(tier):
    return 140 if tier == 'quick' else 2000


def norm(d):
    return json.loads(json.dumps(d, sort_keys=True, default=str))


def diff_dict(a, b, path=''):
    if type(a) != type(b):
        return ['%s: %r -> %r' % (path, a, b)]
    if isinstance(a, dict):
        out = []
        for k in sorted(set(a) | set(b)):
            if k not in a or k not in b:
                out.append('%s/%s: %s' % (path, k, 'added' if k not in a else 'removed'))
            else:
                out += diff_dict(a[k], b[k], path + '/' + str(k))
        return out[:8]
    if isinstance(a, list):
        if len(a) != len(b):
            return ['%s: length %d -> %d' % (path, len(a), len(b))]
        out = []
        for i, (x, y) in enumerate(zip(a, b)):
            out += diff_dict(x, y, '%s[%d]' % (path, i))
        return out[:8]
    return [] if a == b else ['%s: %r -> %r' % (path, a, b)]


def run_case(c, rng):
    if suite.maybe_run(c, ID, base_cases(c.tier)):
        return
    import wntr
    from vlib.props import common
    spec = None
    if c.index % 10 == 9:
        wn, desc = common.perturbed_example(rng, c.tier, files=['Net1.inp', 'Net2.inp', 'Net3.inp'])
        sample = desc
        c.set_sig('example', desc['file'], desc['hyd'], desc['mode'])
        nontrivial = True
    else:
        spec = gnet.gen_spec(rng, n_tank=(0, 2), steps=(4, 10), p_leak=0.08, n_valve=(0, 2), p_power_pump=0.03,
                             p_closed=0.2, n_junc=(3, 9) if c.tier == 'quick' else (3, 20))
        for p in spec['pumps']:
            if rng.random() < 0.3:
                p['status'] = 'CLOSED'
        o = spec['options']
        if rng.random() < 0.15 and not isinstance(o['report_timestep'], str):
            o['report_timestep'] = rng.choice([o['hydraulic_timestep'] // 2, o['hydraulic_timestep'] + o['hydraulic_timestep'] // 2])
            c.count('odd_report_step_cases')
        ctrlgen.add_random_controls(spec, rng, n=(0, 4))
        # junctions or whole zones cut off from every source during the run, some of them still cut off when it ends (side stream
        # seeded by the case, so that the main stream stays what it was)
        import random as _random
        side = _random.Random(c.index * 104729 + len(spec['junctions']) * 31 + len(spec['pipes']))
        if side.random() < 0.35:
            if side.random() < 0.5:
                gnet.add_isolation_schedule(spec, side, with_leak=0.3)
            else:
                gnet.add_zone_isolation(spec, side)
            c.count('isolation_schedule_cases')
        sample = {'spec': spec}
        wn = gnet.build(spec, reset=False)     # straight from the add_* API
        if side.random() < 0.35:
            # report options as name lists in no particular order (part of the definition; the INP writer reads them)
            nn_ = [x['name'] for x in spec['junctions'] + spec['tanks']]
            ll_ = [x['name'] for x in spec['pipes'] + spec['pumps']]
            side.shuffle(nn_)
            side.shuffle(ll_)
            wn.options.report.nodes = nn_[:side.randint(2, max(2, len(nn_)))]
            wn.options.report.links = ll_[:side.randint(2, max(2, len(ll_)))]
            c.count('report_name_list_cases')
        nondef = any(p['status'] == 'CLOSED' for p in spec['pumps']) or any(v['status'] != 'ACTIVE' for v in spec['valves'])
        if nondef:
            c.count('nondefault_initial_status_cases')
        nontrivial = bool(spec['controls'] or spec['leaks'] or nondef or any(p['status'] == 'CLOSED' for p in spec['pipes']))
        c.set_sig(gnet.signature(spec))
    c.sample = sample if spec is None else {'spec_summary': gnet.signature(spec)}
    try:
        d0 = norm(wn.to_dict())
    except Exception as e:
        c.inconclusive('to_dict_failed: %s' % type(e).__name__)
        return
    # equal models, made before anything ran
    copies = {'deepcopy': copy.deepcopy(wn), 'pickle': pickle.loads(pickle.dumps(wn))}
    epa_twin = copy.deepcopy(wn)          # never simulated by anything: the reference for the EpanetSimulator comparison below
    try:
        copies['dict'] = wntr.network.from_dict(json.loads(json.dumps(wn.to_dict())))
    except Exception:
        pass    # C13's subject

    def dict_check(label, counter):
        c.count(counter)
        d1 = norm(wn.to_dict())
        if d1 != d0:
            diffs = diff_dict(d0, d1)
            kind = 'definition_changed'
            c.violate(kind, '%s changed the model definition: %s' % (label, '; '.join(diffs[:4])), diffs=diffs, label=label, sample=sample)

    cycles = rng.randint(1, 3)
    runs = []
    # one simulator object for all cycles (as the repository's test_multiple_simulations does) or a new one per run
    reuse = c.index % 2 == 1
    one_sim = wntr.sim.WNTRSimulator(wn) if reuse else None
    if reuse and cycles > 1:
        c.count('cases_reusing_one_simulator')
    for i in range(cycles):
        if i > 0:
            wn.reset_initial_values()
        tr = simobs.run_wntr(wn, deep=False, sim=one_sim)
        if tr.exception is not None or not simobs.converged(tr):
            c.inconclusive('sim_failed: %s' % (type(tr.exception).__name__ if tr.exception else 'not_converged'))
            return
        dict_check('WNTRSimulator run %d' % (i + 1), 'wntr_dict_checks')
        runs.append(tr.results)
        if i > 0:
            c.count('reset_rerun_pairs')
            compare(c, runs[0], tr.results, 'run 1 vs run %d after reset_initial_values' % (i + 1), sample,
                    'rerun_differs_initial_status' if spec is not None and nondef else 'rerun_differs')
    # equal models give equal results (they were never simulated; they start from their own initial conditions)
    for label, w2 in copies.items():
        tr = simobs.run_wntr(w2, deep=False)
        if tr.exception is not None or not simobs.converged(tr):
            continue
        c.count('copy_runs')
        compare(c, runs[0], tr.results, 'original vs %s copy' % label, sample, 'copy_differs')
    # The model has just been simulated (its run-time state is that of the end of the run) and was not reset: EpanetSimulator
    # works from the definition, so it must give what it gives for a never-simulated equal model
    if rng.random() < 0.6:
        twin = epa_twin
        rep_all = wn.options.time.report_timestep == 'ALL'
        if rep_all:
            wn.options.time.report_timestep = twin.options.time.report_timestep = wn.options.time.hydraulic_timestep
        te1, te2 = simobs.run_epanet(wn), simobs.run_epanet(twin)
        if te1.exception is None and te2.exception is None:
            c.count('epanet_after_wntr_compared')
            compare_epanet(c, te2.results, te1.results, 'EpanetSimulator on the just-simulated model vs on an untouched equal model', sample)
        elif (te1.exception is None) != (te2.exception is None):
            c.violate('epanet_depends_on_previous_run', 'EpanetSimulator %s on the just-simulated model but %s on an untouched equal model' % (
                'ran' if te1.exception is None else 'raised %s' % str(te1.exception)[:80], 'ran' if te2.exception is None else 'raised %s' % str(te2.exception)[:80]), sample=sample)
        if rep_all:
            wn.options.time.report_timestep = twin.options.time.report_timestep = 'ALL'
    # EpanetSimulator must not alter the definition either
    if rng.random() < 0.6:
        wn.reset_initial_values()
        if wn.options.time.report_timestep == 'ALL':
            # 'ALL' is a WNTRSimulator reporting mode (the INP writer cannot express it): give the EPANET run a numeric report step
            wn.options.time.report_timestep = wn.options.time.hydraulic_timestep
            d0 = norm(wn.to_dict())
        te = simobs.run_epanet(wn)
        if te.exception is None:
            dict_check('EpanetSimulator run', 'epanet_dict_checks')
        else:
            c.count('epanet_errors')
        if c.index % 3 == 0:
            # the INP format version is a public argument of EpanetSimulator.run_sim and write_inpfile.  Only the writing half is
            # exercised for 2.0 (that is where the model is read): the EPANET 2.0 shared library itself crashed with SIGSEGV in three
            # workers of one thorough sweep (not reproducible per case) - third-party native code that C11 does not judge, see DESIGN §5
            import tempfile
            d_ = tempfile.mkdtemp(prefix='verif_inp20_')
            try:
                wntr.network.write_inpfile(wn, os.path.join(d_, 'v20.inp'), version=2.0)
                dict_check('write_inpfile(version=2.0)', 'inp_2_0_write_dict_checks')
            except Exception:
                c.count('inp_2_0_write_errors')
            finally:
                import shutil
                shutil.rmtree(d_, ignore_errors=True)
    c.nontrivial = nontrivial
    # The model is edited after it has been simulated (pump curve re-calibrated through Curve.points, a pipe's roughness, a
    # base demand), reset, and compared with an equal model that never ran (rebuilt from the edited model's dictionary): whatever
    # a run caches on the model must not outlive an edit.  Side stream seeded by the case.
    if spec is not None:
        import random as _random
        side2 = _random.Random(c.index * 49979687 + len(spec['pipes']) * 7 + len(spec['pumps']))
        if side2.random() < 0.5:
            edits = []
            heads = [p_ for p_ in spec['pumps'] if p_['type'] == 'HEAD']
            if heads and side2.random() < 0.8:
                cur = wn.get_curve(side2.choice(heads)['curve'])
                f = side2.choice([0.8, 0.9, 1.15, 1.3])
                cur.points = [(q_, h_ * f) for q_, h_ in cur.points]
                edits.append('curve %s heads x %s' % (cur.name, f))
            if spec['pipes'] and side2.random() < 0.6:
                pn = side2.choice(spec['pipes'])['name']
                wn.get_link(pn).roughness = wn.get_link(pn).roughness * side2.choice([0.6, 0.8, 1.25])
                edits.append('roughness of %s' % pn)
            if side2.random() < 0.6:
                jn = side2.choice(spec['junctions'])['name']
                dl = wn.get_node(jn).demand_timeseries_list
                if len(dl):
                    dl[0].base_value = dl[0].base_value * 1.4 + 0.0005
                    edits.append('base demand of %s' % jn)
            if edits:
                wn.reset_initial_values()
                try:
                    twin2 = wntr.network.from_dict(json.loads(json.dumps(wn.to_dict())))
                except Exception:
                    twin2 = None      # C13's subject
                if twin2 is not None:
                    t1 = simobs.run_wntr(wn, deep=False)
                    t2 = simobs.run_wntr(twin2, deep=False)
                    if t1.exception is None and t2.exception is None and simobs.converged(t1) and simobs.converged(t2):
                        c.count('edited_model_vs_equal_copy_compared')
                        compare(c, t2.results, t1.results, 'model edited after a run (%s) and reset vs an equal model rebuilt from its dictionary' % ', '.join(edits),
                                sample, 'edited_model_differs_from_equal_copy')


def compare_epanet(c, r0, r1, label, sample):
    """Two EPANET runs of equal models: identical files give identical binary results."""
    import numpy as np
    for group, keys in (('node', ['head', 'demand']), ('link', ['flowrate', 'status'])):
        for key in keys:
            a, b = getattr(r0, group)[key], getattr(r1, group)[key]
            if list(a.index) != list(b.index) or list(a.columns) != list(b.columns):
                c.violate('epanet_depends_on_previous_run', '%s: table %s has a different index or columns' % (label, key), sample=sample)
                return
            av, bv = np.asarray(a.values, dtype=float), np.asarray(b.values, dtype=float)
            d = np.abs(av - bv)
            tol = 1e-6 + 1e-6 * np.maximum(np.abs(av), np.abs(bv))
            if (d > tol).any():
                i, j = np.argwhere(d > tol)[0]
                c.violate('epanet_depends_on_previous_run', '%s: %s[%s] at t=%s is %.9g vs %.9g' % (label, key, a.columns[j], a.index[i], bv[i, j], av[i, j]),
                          sample=sample)
                return


def compare(c, r0, r1, label, sample, kind):
    import numpy as np
    for group, keys in (('node', ['head', 'demand', 'leak_demand']), ('link', ['flowrate', 'status'])):
        for key in keys:
            a, b = getattr(r0, group)[key], getattr(r1, group)[key]
            if list(a.index) != list(b.index) or list(a.columns) != list(b.columns):
                c.violate(kind, '%s: table %s has a different index or columns (%s vs %s)' % (label, key, list(a.index)[:6], list(b.index)[:6]),
                          label=label, sample=sample)
                return
            av, bv = np.asarray(a.values, dtype=float), np.asarray(b.values, dtype=float)
            tol = 0 if key == 'status' else 1e-8 + 1e-8 * np.maximum(abs(av), abs(bv))
            bad = abs(av - bv) > tol
            if bad.any():
                i, j = np.argwhere(bad)[0]
                c.violate(kind, '%s: %s[%s] at t=%s is %.10g vs %.10g' % (label, key, a.columns[j], a.index[i], av[i, j], bv[i, j]),
                          label=label, table=key, column=str(a.columns[j]), t=a.index[i], sample=sample)
                return
