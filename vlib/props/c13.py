"""C13 - dictionary and JSON representations round-trip the model exactly.

Events: d0 = to_dict(m); m1 = from_dict(json(d0)); d1 = to_dict(m1); the same through
write_json/read_json; and from_dict(d0, append=empty model).
Oracle: d1 == normalise(d0) exactly (tuples -> lists through JSON, a junction without demands comes
back with one zero demand, empty pattern names), reported per differing path.
"""
import copy
import json
import os
import shutil
import tempfile
import traceback

from vlib.gen import model as gmodel

ID = 'C13'
LEVEL = 'exploration'
RULE = ('G-model: random API-built models (all node/link kinds, 6 valve types, vertices and tags on every link type, 0-3 demands per '
        'junction with categories, 4 curve types, 4 source types, leaks with and without start/end controls, simple controls on '
        'status/setting/speed with time, clock-time, tank-level and pressure conditions, rules with AND/OR/ELSE/priority, all option '
        'groups) plus the example INP files; three paths per model (dict+json.dumps/loads, write_json/read_json, append to an empty '
        'model) and a second round trip; signature = sorted feature set + element counts; non-trivial = the model has at least one '
        'of {link vertices, multi-demand junction, curve, source, control/rule}')
ASSUMPTIONS = ['normalisation allowed by the statement: tuples/lists, empty pattern name == None, a demand-less junction returns with one zero demand',
               'simple controls are stored without names; their generated names control N are not compared (they are not in the dictionary)']
FLOORS = {'quick': {'conclusive': 200, 'distinct_nontrivial': 100,
                    'counters': {'roundtrips_dict': 200, 'roundtrips_json_file': 200, 'append_compared': 200, 'second_roundtrips': 150,
                                 'models_with_valve_vertices': 25, 'models_with_rules': 60, 'models_with_controls': 80,
                                 'models_with_sources': 80, 'example_files': 8}},
          'thorough': {'conclusive': 3500, 'distinct_nontrivial': 1500,
                       'counters': {'roundtrips_dict': 3500, 'roundtrips_json_file': 3500, 'append_compared': 3500,
                                    'second_roundtrips': 3000, 'models_with_valve_vertices': 400, 'models_with_rules': 1000,
                                    'models_with_controls': 1400, 'models_with_sources': 1400, 'example_files': 30}}}
CASE_TIMEOUT = {'quick': 180, 'thorough': 600}
EXAMPLES = ['Net1.inp', 'Net2.inp', 'Net3.inp', 'Net6.inp', 'ky10.inp', 'ky4.inp']


# appended to RULE in the evidence (vlib/runner.py)
RULE_ADDENDUM = 'Added in round 4: leaks removed again before the model is saved (G-model).'

def n_cases(tier):
    return 320 if tier == 'quick' else 5000


JUNCTION_DEMAND_KEYS = ('base_demand', 'demand_pattern', 'demand_category', 'pattern_name', 'demand_timeseries_list')


def _ws(x):
    return ' '.join(str(x).split())


def normalise(d, demandless=None):
    """JSON normalisation + the three allowances of the statement.

    `demandless`: names of junctions that had no demand entry in the ORIGINAL model: they come back
    with one zero demand, so their demand-derived keys are compared separately.
    Condition/action strings are compared modulo runs of blanks.
    """
    d = json.loads(json.dumps(d))
    d.pop('version', None)
    for n in d.get('nodes', []):
        if n.get('node_type') == 'Junction':
            if demandless is not None and n['name'] in demandless:
                for k in JUNCTION_DEMAND_KEYS:
                    n.pop(k, None)
                continue
            for dem in n.get('demand_timeseries_list') or []:
                if dem.get('pattern_name') == '':
                    dem['pattern_name'] = None
            if n.get('demand_pattern') == '':
                n['demand_pattern'] = None
        if n.get('head_pattern_name') == '':
            n['head_pattern_name'] = None
    for l in d.get('links', []):
        if l.get('speed_pattern_name') == '':
            l['speed_pattern_name'] = None
    for s_ in d.get('sources', []):
        if s_.get('pattern') == '':
            s_['pattern'] = None
    for ct in d.get('controls', []):
        if 'condition' in ct:
            ct['condition'] = _ws(ct['condition'])
        for k in ('then_actions', 'else_actions'):
            if k in ct:
                ct[k] = [_ws(a) for a in ct[k]]
    return d


def demandless_junctions(d):
    return set(n['name'] for n in d.get('nodes', []) if n.get('node_type') == 'Junction' and not n.get('demand_timeseries_list'))


def cond_shape(cond):
    """Canonical form of a rule condition: AND-list of OR-lists of leaf strings, or 'AND-inside-OR' marker.

    EPANET rule text has no parentheses and OR binds tighter than AND, so exactly the conjunctions of
    disjunctions are expressible; associativity regrouping is not a change."""
    from wntr.network import controls as ctl

    def ors(c):
        if isinstance(c, ctl.OrCondition):
            return ors(c._condition_1) + ors(c._condition_2)
        if isinstance(c, ctl.AndCondition):
            return [('AND-inside-OR', tuple(ands(c)))]
        return [_ws(c)]

    def ands(c):
        if isinstance(c, ctl.AndCondition):
            return ands(c._condition_1) + ands(c._condition_2)
        return [tuple(ors(c))]
    return ands(cond)


def diff(a, b, path='', out=None, limit=12):
    """Structural diff of two JSON values -> list of (path, a, b)."""
    if out is None:
        out = []
    if len(out) >= limit:
        return out
    if isinstance(a, dict) and isinstance(b, dict):
        for k in sorted(set(a) | set(b)):
            if k not in a:
                out.append((path + '/' + k, '<absent>', b[k]))
            elif k not in b:
                out.append((path + '/' + k, a[k], '<absent>'))
            else:
                diff(a[k], b[k], path + '/' + k, out, limit)
    elif isinstance(a, list) and isinstance(b, list):
        if len(a) != len(b):
            out.append((path + '[len]', len(a), len(b)))
        named = all(isinstance(x, dict) and 'name' in x for x in a + b) and a and b
        if named:
            da = {x['name']: x for x in a}
            db = {x['name']: x for x in b}
            for k in sorted(set(da) | set(db), key=str):
                if k not in da or k not in db:
                    out.append(('%s[%s]' % (path, k), 'present' if k in da else '<absent>', 'present' if k in db else '<absent>'))
                else:
                    diff(da[k], db[k], '%s[%s]' % (path, k), out, limit)
        else:
            for i, (x, y) in enumerate(zip(a, b)):
                diff(x, y, '%s[%d]' % (path, i), out, limit)
    else:
        if a != b and not (isinstance(a, float) and isinstance(b, float) and a != a and b != b):
            out.append((path, a, b))
    return out


def path_class(p):
    """links[V1]/vertices -> links/*/vertices (mechanism key for known findings)."""
    import re
    p = re.sub(r'\[[^\]]*\]', '/*', p)
    return p.strip('/')


def run_case(c, rng):
    import wntr
    from vlib.props import common
    if c.index % 40 == 39:
        f = EXAMPLES[(c.index // 40) % (3 if c.tier == 'quick' else len(EXAMPLES))]
        try:
            wn = common.load_example(f)
        except Exception as e:
            c.inconclusive('example_unreadable: %s' % type(e).__name__)
            return
        log = ['WaterNetworkModel(%s)' % f]
        feats = {'example', f}
        c.count('example_files')
    else:
        g = gmodel.Gen(rng, inp=False, size=(2, 8) if c.tier == 'quick' else (2, 16))
        try:
            wn = g.build()
        except Exception as e:
            c.inconclusive('generator_failed: %s: %s' % (type(e).__name__, str(e)[:200]))
            c.notes.append(traceback.format_exc()[-1500:])
            return
        log = g.log
        feats = set(g.features)
    wit = {'calls': log[-60:]}
    try:
        d0 = wn.to_dict()
        js = json.dumps(d0)
    except Exception as e:
        c.violate('to_dict_failed', 'to_dict()/json.dumps raised %s: %s' % (type(e).__name__, e), traceback=traceback.format_exc()[-1500:], **wit)
        return
    dless = demandless_junctions(d0)
    want = normalise(d0, dless)
    leak_controls = any('LEAK_STATUS' in a.upper() for ct in d0.get('controls', []) for a in ct.get('then_actions', []))
    d0_before = json.dumps(d0, sort_keys=True, default=str)
    for k, cnt in (('valve_vertices', 'models_with_valve_vertices'), ('rule', 'models_with_rules'), ('rule_else', 'models_with_rules'),
                   ('control', 'models_with_controls'), ('source', 'models_with_sources')):
        if k in feats:
            c.count(cnt)
    c.set_sig(','.join(sorted(feats)), wn.num_nodes, wn.num_links, wn.num_controls)
    c.nontrivial = bool(feats & {'valve_vertices', 'pipe_vertices', 'pump_vertices', 'multi_demand', 'source', 'control', 'rule',
                                 'rule_else', 'example'}) or wn.num_curves > 0
    c.sample = {'features': sorted(feats), 'nodes': wn.num_nodes, 'links': wn.num_links, 'controls': wn.num_controls,
                'calls': log[:6]}

    def compare(label, build):
        try:
            m1 = build()
            d1 = m1.to_dict()
        except Exception as e:
            tb = traceback.format_exc()[-1800:]
            kind = 'roundtrip_raised'
            if leak_controls and '_read_control_line' in tb:
                kind = 'roundtrip_raised_leak_control'
            c.violate(kind, '%s raised %s: %s' % (label, type(e).__name__, str(e)[:300]), traceback=tb, **wit)
            return None
        have = normalise(d1, dless)
        dd = diff(want, have)
        for n in d1.get('nodes', []):
            if n['name'] in dless and n.get('node_type') == 'Junction':
                dl = n.get('demand_timeseries_list') or []
                c.count('demandless_junctions_checked')
                if len(dl) > 1 or any(abs(x.get('base_val') or 0.0) > 0 for x in dl):
                    c.violate('demandless_junction_gained_demand', '%s: junction %s had no demand, came back with %s' % (label, n['name'], dl), **wit)
        # rule conditions: same logical structure (the text alone cannot show a regrouping)
        for cname, ctrl in wn.controls():
            if cname in m1.control_name_list and hasattr(ctrl, '_condition'):
                a, b = cond_shape(ctrl._condition), cond_shape(m1.get_control(cname)._condition)
                c.count('rule_conditions_compared')
                if a != b:
                    kind = 'rule_condition_regrouped_or_over_and' if 'AND-inside-OR' in json.dumps(a) else 'rule_condition_changed'
                    c.violate(kind, '%s: rule %s condition %s became %s' % (label, cname, _ws(ctrl._condition), _ws(m1.get_control(cname)._condition)),
                              before=a, after=b, **wit)
        seen = set()
        for p, a, b in dd:
            pc = path_class(p)
            if pc in seen:
                continue
            seen.add(pc)
            c.violate('dict_differs:' + pc, '%s: %s was %s, is %s after the round trip' % (label, p, json.dumps(a)[:200], json.dumps(b)[:200]),
                      path=p, before=a, after=b, **wit)
        return m1

    m1 = compare('from_dict(json.loads(json.dumps(to_dict())))', lambda: wntr.network.from_dict(json.loads(js)))
    c.count('roundtrips_dict')
    if json.dumps(d0, sort_keys=True, default=str) != d0_before:
        c.violate('from_dict_mutates_input', 'from_dict changed the dictionary it was given (only setdefault of absent keys is benign)', **wit)
    tmp = tempfile.mkdtemp(prefix='verif_c13_')
    try:
        path = os.path.join(tmp, 'm.json')

        def via_file():
            wntr.network.write_json(wn, path)
            return wntr.network.read_json(path)
        compare('read_json(write_json())', via_file)
        c.count('roundtrips_json_file')
    finally:
        shutil.rmtree(tmp, ignore_errors=True)
    compare('from_dict(d, append=WaterNetworkModel())', lambda: wntr.network.from_dict(json.loads(js), append=wntr.network.WaterNetworkModel()))
    c.count('append_compared')
    if m1 is not None and not c.violations:
        # a second cycle changes nothing further
        try:
            d1 = m1.to_dict()
            m2 = wntr.network.from_dict(json.loads(json.dumps(d1)))
            dd = diff(normalise(d1), normalise(m2.to_dict()))
            for p, a, b in dd[:3]:
                c.violate('second_roundtrip_differs:' + path_class(p), 'second cycle: %s was %s, is %s' % (p, json.dumps(a)[:200], json.dumps(b)[:200]), **wit)
            c.count('second_roundtrips')
        except Exception as e:
            c.violate('roundtrip_raised', 'second round trip raised %s: %s' % (type(e).__name__, e), traceback=traceback.format_exc()[-1500:], **wit)
