"""C02 - every link obeys the head-flow law of its type and reported status.

System level: every (reported step x link) of a simulation is judged against the documented law
of its type/status, with coefficients recomputed from the element definitions (pump curve fit by
the documented rules, H-W resistance with the documentation constant).
Model level: the pipe head-loss row of the built algebraic model is swept over flow through the
compiled evaluator and must be odd, strictly increasing, continuous and equal to the law.
"""
import math

from vlib.gen import net as gnet, ctrlgen
from vlib.ref import hyd as ref
from vlib import simobs
from vlib.props import common, suite

ID = 'C02'
LEVEL = 'exploration'
RULE = ('seeded random networks (G-net with pumps/valves/check valves emphasised, 1-, 2- and 3-point pump curves, power '
        'pumps, both HW approximations) plus valve rigs that force PRV/PSV/FCV/TCV into active/open/closed; every link x '
        'reported step judged by the law of its type and reported status; pipe head-loss rows additionally swept over '
        'q in +-[1e-9,10] through the compiled evaluator (odd, increasing, continuous, equals law); signature = structural '
        'class + set of (type,status) buckets observed; non-trivial = converged and >=1 pump, valve, check valve or minor loss')
ASSUMPTIONS = ['head tolerance 1e-6 m (solver residual) + documented smoothing: 1e-5*sqrt(k)*|q| (default HW approximation), '
               '3e-5 relative on k (10.667 vs coded 10.66683), k*q2^1.852 for |q|<4e-4 in piecewise mode',
               'links touching a junction that reference reachability calls isolated are left to C09',
               'pump-curve reference fit: 1 point A=4H/3,B=H/(3Q^2),C=2; 2 points straight line; 3 points exact A-BQ^C through (0,H0),(Q1,H1),(Q2,H2)']
BUCKETS = ['pipe_open', 'pipe_closed', 'cv_open', 'cv_closed', 'headpump1_open', 'headpump2_open', 'headpump3_open',
           'headpump_closed', 'powerpump_open', 'PRV_active', 'PRV_open', 'PRV_closed', 'PSV_active', 'PSV_open',
           'PSV_closed', 'FCV_active', 'FCV_open', 'TCV_active', 'TCV_open', 'TCV_closed', 'FCV_closed']
_QF = {'pipe_open': 2000, 'pipe_closed': 300, 'cv_open': 400, 'cv_closed': 200, 'headpump1_open': 90, 'headpump2_open': 90,
       'headpump3_open': 90, 'headpump_closed': 10, 'powerpump_open': 60, 'PRV_active': 20, 'PRV_open': 15, 'PRV_closed': 40,
       'PSV_active': 3, 'PSV_open': 40, 'PSV_closed': 15, 'FCV_active': 15, 'FCV_open': 60, 'FCV_closed': 5, 'TCV_active': 70,
       'TCV_open': 20, 'TCV_closed': 10, 'link_steps': 4000, 'sweep_points': 20000, 'recalibrated_runs': 8, 'setting_control_cases': 15}
FLOORS = {'quick': {'conclusive': 100, 'distinct_nontrivial': 50, 'counters': _QF},
          'thorough': {'conclusive': 1400, 'distinct_nontrivial': 600, 'counters': {k: 10 * v for k, v in _QF.items()}}}
CASE_TIMEOUT = {'quick': 120, 'thorough': 300}


# appended to RULE in the evidence (vlib/runner.py)
RULE_ADDENDUM = 'Added in round 5: the head-loss rows of every Open valve and Active TCV swept in both flow directions on the algebraic model (no solve needed); pipe roughness / diameter / minor loss / length changed by time controls during the run; more valve rigs hold the valve Open and push it backwards. Round 6: the power of a constant-power pump changed by a control during the run.'

def n_cases(tier):
    return base_cases(tier) + len(suite.files(tier))     # + the repository's own tests under the monitor (vlib/props/suite.py)


def base_cases(tier):
    return 220 if tier == 'quick' else 3200


def valve_rig(rng):
    """R1 - P1 - J1 - VALVE - J2 - P2 - (tank | second reservoir | dead end with demand)."""
    vt = rng.choice(['PRV', 'PSV', 'FCV', 'TCV'])
    target = rng.choice(['active', 'active', 'open', 'closed'])
    mode = rng.choice(['tank', 'tank', 'res_high', 'deadend'])
    if target == 'closed' and vt == 'PRV':
        mode = 'res_high'
    if target == 'active' and vt in ('PSV', 'FCV'):
        mode = 'tank'
    hyd = rng.choice([900, 3600])
    spec = gnet.gen_spec(rng, n_junc=(2, 2), n_res=(1, 1), n_tank=(0, 0), n_valve=(0, 0), p_chord=0, p_parallel=0,
                         p_pump_source=0, p_booster=0, p_cv=0, p_closed=0, p_pdd=0, p_res_pattern=0,
                         hyd_steps=(hyd,), steps=(3, 8))
    r1 = spec['reservoirs'][0]['head'] = gnet._round(rng.uniform(90, 120))
    e1 = spec['junctions'][0]['elevation'] = gnet._round(rng.uniform(0, 30))
    e2 = spec['junctions'][1]['elevation'] = gnet._round(rng.uniform(0, 30))
    # replace the J1-J2 pipe by the valve
    spec['pipes'] = [p for p in spec['pipes'] if not (p['start'] == 'J1' and p['end'] == 'J2')]
    status = 'ACTIVE'
    if vt == 'PRV':
        setting = {'active': r1 - e2 - rng.uniform(10, 40), 'open': r1 - e2 + rng.uniform(5, 40),
                   'closed': rng.uniform(10, 60)}[target]
    elif vt == 'PSV':
        setting = {'active': r1 - e1 - rng.uniform(1, 5), 'open': rng.uniform(5, 30),
                   'closed': r1 - e1 + rng.uniform(5, 30)}[target]
    elif vt == 'FCV':
        setting = {'active': rng.choice([0.0005, 0.002, 0.004]), 'open': rng.choice([0.2, 0.5]),
                   'closed': rng.choice([0.001, 0.01])}[target]
        if target == 'closed':
            status = 'CLOSED'
    else:
        setting = rng.choice([0.0, 2.0, 50.0, 2000.0])
        status = {'active': 'ACTIVE', 'open': 'OPEN', 'closed': 'CLOSED'}[target]
    if rng.random() < 0.15:
        status = rng.choice(['OPEN', 'CLOSED'])
    # a valve fixed open by the user obeys its minor-loss law in both flow directions, whatever its type (side stream)
    import random as _random
    side = _random.Random(int(r1 * 1000) + int(e1 * 100) + int(e2 * 10))
    if vt != 'TCV' and side.random() < 0.3:
        status = 'OPEN'
    spec['valves'].append({'name': 'V1', 'start': 'J1', 'end': 'J2', 'diameter': rng.choice([0.1, 0.2, 0.3]), 'type': vt,
                           'minor_loss': rng.choice([0.0, 1.0, 10.0]), 'setting': gnet._round(max(setting, 0.0)),
                           'status': status})
    r2head = gnet._round(r1 + (rng.uniform(5, 25) if (vt == 'PRV' and target == 'closed') else rng.uniform(-30, 25)))
    if status == 'OPEN' and side.random() < 0.5:
        r2head = gnet._round(r1 + side.uniform(5, 25))       # pushed backwards through the open valve
        if mode != 'res_high' and side.random() < 0.7:
            mode = 'res_high'
    if mode == 'tank':
        spec['tanks'].append({'name': 'T1', 'elevation': gnet._round(rng.uniform(30, 55) if target == 'active' else rng.uniform(30, 80)), 'init_level': 3.0, 'min_level': 0.0,
                              'max_level': 10.0, 'diameter': 15.0, 'min_vol': 0.0, 'vol_curve': None, 'overflow': False,
                              'coordinates': [5.0, 5.0]})
        spec['pipes'].append({'name': 'PT', 'start': 'J2', 'end': 'T1', 'length': 150.0, 'diameter': 0.3, 'roughness': 110.0,
                              'minor_loss': 0.0, 'status': 'OPEN', 'cv': False})
    elif mode == 'res_high':
        spec['reservoirs'].append({'name': 'R2', 'head': r2head,
                                   'pattern': None, 'coordinates': [9.0, 9.0]})
        spec['pipes'].append({'name': 'PR2', 'start': 'J2', 'end': 'R2', 'length': 200.0, 'diameter': 0.3, 'roughness': 110.0,
                              'minor_loss': 0.0, 'status': 'OPEN', 'cv': False})
    return spec


def run_testnet(c, rng):
    """The repository's own hand-made test networks (one feature each) as a second corpus."""
    wn, desc = common.testnet(rng)
    if wn is None:
        c.inconclusive('testnet_unusable: %s' % desc)
        return
    hw = rng.choice(['default', 'piecewise'])
    c.sample = dict(desc, HW_approx=hw)
    c.set_sig('testnet', desc['file'], hw)
    tr = simobs.run_wntr(wn, deep=False, HW_approx=hw)
    if not simobs.converged(tr):
        c.inconclusive('sim_failed: %s' % (type(tr.exception).__name__ if tr.exception else 'not_converged'))
        return
    c.count('testnet_cases')
    check_links(c, wn, tr.results, hw, dict(desc, HW_approx=hw))
    c.nontrivial = True


def run_case(c, rng):
    if suite.maybe_run(c, ID, base_cases(c.tier)):
        return
    if c.index % 20 == 17:
        return run_testnet(c, rng)
    kind = c.index % 4
    if kind == 3:
        spec = valve_rig(rng)
    else:
        spec = gnet.gen_spec(rng, p_pump_source=0.6, pump_curves=(1, 3), p_power_pump=0.3, n_valve=(0, 2), p_cv=0.25,
                             p_closed=0.15, p_minor=0.5, p_booster=0.3, p_tank_pump=0.15,
                             n_junc=(3, 12) if c.tier == 'quick' else (3, 30))
    if spec['valves'] and rng.random() < 0.5:
        # valve settings changed by time controls during the run: the law must follow the reported setting
        ctrlgen.add_random_controls(spec, rng, n=(1, 2), kinds=('setting',))
        c.count('setting_control_cases')
    wn = gnet.build(spec)
    hw = rng.choice(['default', 'piecewise'])
    c.sample = {'spec_summary': gnet.signature(spec), 'HW_approx': hw, 'rig': kind == 3}
    sample = {'spec': spec, 'HW_approx': hw}
    sweep(c, wn, hw, rng, sample)
    # pipe properties changed by time controls while the run is under way (the hydraulic model registers an updater for
    # roughness, diameter, minor_loss and length): the law must follow the value in force at each reported step.
    # Side stream seeded by the case: the main stream stays what it was.
    import random as _random
    side = _random.Random(c.index * 15485863 + len(spec['pipes']) * 101 + len(spec['junctions']))
    changes = {}
    if kind != 3 and spec['pipes'] and side.random() < 0.3:
        from wntr.network import controls as ctl
        o_ = spec['options']
        for k in range(side.randint(1, 2)):
            p_ = side.choice(spec['pipes'])
            if p_['name'] in changes:
                continue
            attr = side.choice(['roughness', 'roughness', 'diameter', 'minor_loss', 'length'])
            old_v = p_[attr]
            new_v = {'roughness': gnet._round(old_v * side.choice([0.6, 0.8, 1.3]), 4), 'diameter': gnet._round(old_v * side.choice([0.7, 0.85, 1.2]), 4),
                     'minor_loss': gnet._round(old_v * 3.0 + side.choice([0.5, 5.0, 25.0]), 4), 'length': gnet._round(old_v * side.choice([0.5, 2.0]), 3)}[attr]
            t_ = o_['hydraulic_timestep'] * side.randint(1, max(1, o_['duration'] // o_['hydraulic_timestep'])) + side.choice([0, 0, o_['hydraulic_timestep'] // 2])
            wn.add_control('prop_change_%d' % k, ctl.Control(ctl.SimTimeCondition(wn, '=', t_), ctl.ControlAction(wn.get_link(p_['name']), attr, new_v)))
            changes[p_['name']] = {'attr': attr, 'old': old_v, 'new': new_v, 'time': t_}
        # the power of a constant-power pump changed by a control (updater registered for (pump, 'power'))
        pp = [p_ for p_ in spec['pumps'] if p_['type'] == 'POWER']
        if pp and side.random() < 0.7:
            p_ = side.choice(pp)
            new_v = gnet._round(p_['power'] * side.choice([0.5, 0.8, 1.5]), 5)
            t_ = o_['hydraulic_timestep'] * side.randint(1, max(1, o_['duration'] // o_['hydraulic_timestep'])) + side.choice([0, 0, o_['hydraulic_timestep'] // 2])
            wn.add_control('prop_change_power', ctl.Control(ctl.SimTimeCondition(wn, '=', t_), ctl.ControlAction(wn.get_link(p_['name']), 'power', new_v)))
            changes[p_['name']] = {'attr': 'power', 'old': p_['power'], 'new': new_v, 'time': t_}
            c.count('pump_power_control_cases')
        if changes:
            c.count('pipe_property_control_cases')
            sample = dict(sample, pipe_property_changes=changes)
    tr = simobs.run_wntr(wn, deep=False, HW_approx=hw)
    if not simobs.converged(tr):
        c.inconclusive('sim_failed: %s' % (type(tr.exception).__name__ if tr.exception else 'not_converged'))
        c.set_sig(gnet.signature(spec), hw)
        return
    buckets = check_links(c, wn, tr.results, hw, sample, changes)
    # history: re-calibrate a pump curve in place (public setter), reset, run again - the law must follow the new points
    heads = [p for p in spec['pumps'] if p['type'] == 'HEAD']
    if heads and rng.random() < 0.6 and not changes:
        pu = rng.choice(heads)
        cur = wn.get_curve(pu['curve'])
        old_pts = list(cur.points)
        f = rng.choice([0.85, 0.9, 1.1, 1.2])
        if rng.random() < 0.5 or len(old_pts) == 2:
            new_pts = [(q, h * f) for q, h in old_pts]
        else:   # change the number of points too
            q, h = old_pts[-1] if len(old_pts) == 1 else old_pts[1]
            new_pts = [(q, h * f)] if len(old_pts) > 1 else [(0.0, 1.33 * h * f), (q, h * f), (2 * q, 0.0)]
        cur.points = new_pts
        wn.reset_initial_values()
        sample2 = dict(sample, recalibrated={'curve': pu['curve'], 'old': old_pts, 'new': new_pts})
        tr2 = simobs.run_wntr(wn, deep=False, HW_approx=hw)
        if simobs.converged(tr2):
            c.count('recalibrated_runs')
            buckets |= check_links(c, wn, tr2.results, hw, sample2)
    c.set_sig(gnet.signature(spec), hw, ','.join(sorted(buckets)))
    c.nontrivial = bool(spec['pumps'] or spec['valves'] or any(p['cv'] or p['minor_loss'] for p in spec['pipes']))


class _At(object):
    """A link as it was at one reported instant: attributes changed by a control later in the run still show their old value."""
    def __init__(self, link, over):
        self._link, self._over = link, over

    def __getattr__(self, k):
        if k in self._over:
            return self._over[k]
        return getattr(self._link, k)


def check_links(c, wn, res, hw, sample, changes=None):
    topo = ref.Topo(wn)
    Q, S, ST = res.link['flowrate'], res.link['status'], res.link['setting']
    H = res.node['head']
    times = list(Q.index)
    buckets = set()
    elev = {n: (o.elevation if o.node_type != 'Reservoir' else 0.0) for n, o in wn.nodes()}
    fits = {}
    for i, t in enumerate(times):
        closed = set(ln for ln in topo.links if S[ln].values[i] == 0)
        conn = topo.connected_nodes(closed)
        for ln, link in wn.links():
            ch = (changes or {}).get(ln)
            if ch is not None:
                link = _At(link, {ch['attr']: ch['new'] if t >= ch['time'] else ch['old']})
                c.count('link_steps_with_changed_property' if t >= ch['time'] else 'link_steps_before_property_change')
            a, b = topo.links[ln]
            if a not in conn or b not in conn:
                c.count('skipped_isolated')
                continue
            q = float(Q[ln].values[i])
            st = int(S[ln].values[i])
            hs, he = float(H[a].values[i]), float(H[b].values[i])
            dh = hs - he
            c.count('link_steps')
            lt = link.link_type
            wit = dict(link=ln, type=lt, t=t, q=q, status=st, h_start=hs, h_end=he, sample=sample)

            def bad(kind, msg):
                c.violate(kind, '%s %s t=%s status=%d q=%.9g hs=%.6f he=%.6f: %s' % (lt, ln, t, st, q, hs, he, msg), **wit)

            if st == 0:
                if lt == 'Pipe':
                    b_ = 'cv_closed' if link.check_valve else 'pipe_closed'
                elif lt == 'Pump':
                    b_ = 'headpump_closed' if link.pump_type == 'HEAD' else 'powerpump_closed'
                else:
                    b_ = link.valve_type + '_closed'
                buckets.add(b_)
                c.count(b_)
                if abs(q) > 1e-6 + 1e-9:
                    bad('closed_link_flow', 'closed link carries flow')
                continue
            if lt == 'Pipe':
                b_ = 'cv_open' if link.check_valve else 'pipe_open'
                buckets.add(b_)
                c.count(b_)
                k = ref.hw_k(link.roughness, link.diameter, link.length)
                mk = ref.minor_k(link.minor_loss, link.diameter)
                law = math.copysign(k * abs(q) ** 1.852 + mk * q * q, q)
                tol = 1e-6 + 3e-5 * k * abs(q) ** 1.852 + 1e-9 * abs(dh)
                if hw == 'default':
                    law += 1e-5 * math.sqrt(k) * q
                elif abs(q) < 4e-4:
                    tol += k * 4e-4 ** 1.852 + k * 1e-3 * 4e-4
                if abs(dh - law) > tol:
                    bad('pipe_law', 'headloss %.9g, Hazen-Williams+minor law gives %.9g (k=%.6g, m=%.6g)' % (dh, law, k, mk))
                if link.check_valve and q < -ref.QTOL - 1e-9:
                    bad('cv_reverse_flow', 'check-valve pipe reports reverse flow')
            elif lt == 'Pump':
                if link.pump_type == 'POWER':
                    buckets.add('powerpump_open')
                    c.count('powerpump_open')
                    P = link.power
                    if q < -ref.QTOL - 1e-9:
                        turbine = abs(P + (hs - he) * q * ref.RHO * ref.G) <= 1e-5 + 1e-9 * abs(P)
                        bad('power_pump_reverse_flow' if turbine else 'pump_reverse_flow',
                            'open power pump reports reverse flow%s' % (' on the turbine root of P=rho*g*q*dh' if turbine else ''))
                    elif abs(P - ref.RHO * ref.G * q * (he - hs)) > 1e-5 + 1e-9 * abs(P):
                        bad('power_pump_law', 'rho*g*q*gain=%.9g W but power=%.9g W' % (ref.RHO * ref.G * q * (he - hs), P))
                else:
                    pts = list(link.get_pump_curve().points)
                    if ln not in fits:
                        fits[ln] = ref.pump_fit(pts)
                    b_ = 'headpump%d_open' % min(len(pts), 3)
                    buckets.add(b_)
                    c.count(b_)
                    if q < -ref.QTOL - 1e-9:
                        flat = fits[ln] is not None and abs((he - hs) - fits[ln][0]) <= 1e-6 + 1e-9 * abs(fits[ln][0])
                        bad('head_pump_reverse_flow_at_shutoff' if flat else 'pump_reverse_flow',
                            'open head pump reports reverse flow%s' % (
                                ' with head gain pinned at the shut-off head A=%.9g (flat q<0 branch of the pump row)' % fits[ln][0]
                                if flat else ''))
                    elif q > 1e-6 and fits[ln] is not None:
                        A, B, C = fits[ln]
                        want = A - B * q ** C
                        if abs((he - hs) - want) > 1e-6 + 1e-5 * A:
                            kind = 'pump_curve_2pt' if len(pts) == 2 else 'head_pump_law'
                            bad(kind, 'head gain %.9g but curve through the %d given points gives %.9g (A=%.6g B=%.6g C=%.6g; points %s)' % (
                                he - hs, len(pts), want, A, B, C, pts))
            else:
                vt = link.valve_type
                name = {1: 'open', 2: 'active'}.get(st, str(st))
                b_ = '%s_%s' % (vt, name)
                buckets.add(b_)
                c.count(b_)
                setting = float(ST[ln].values[i])
                mk = ref.minor_k(link.minor_loss, link.diameter)
                if st == 1 or (vt == 'TCV' and st == 2):
                    kk = mk if st == 1 else ref.minor_k(setting, link.diameter)
                    law = math.copysign(kk * q * q, q)
                    if abs(dh - law) > 1e-6 + 1e-9 * abs(law):
                        wrong_sign = vt in ('PRV', 'PSV') and st == 1 and q < 0 and abs(dh + law) <= 1e-6 + 1e-9 * abs(law)
                        bad('prv_psv_open_reverse_sign' if wrong_sign else 'valve_loss_law', 'headloss %.9g, loss-coefficient law gives %.9g (K=%s)' % (
                            dh, law, link.minor_loss if st == 1 else setting))
                elif st == 2 and vt == 'PRV':
                    if abs((he - elev[b]) - setting) > 1e-6 + 1e-9:
                        bad('prv_setting', 'downstream pressure %.9g != setting %.9g' % (he - elev[b], setting))
                elif st == 2 and vt == 'PSV':
                    if abs((hs - elev[a]) - setting) > 1e-6 + 1e-9:
                        bad('psv_setting', 'upstream pressure %.9g != setting %.9g' % (hs - elev[a], setting))
                elif st == 2 and vt == 'FCV':
                    if abs(q - setting) > 1e-6 + 1e-9:
                        bad('fcv_setting', 'flow %.9g != setting %.9g' % (q, setting))
    return buckets


def sweep_valves(c, wn, m, sample):
    """Head-loss row of every valve that the model holds Open (or of an Active TCV): +-K q^2, odd in q, whatever the valve type."""
    import numpy as np
    for vn, v in wn.valves():
        st = int(v.status)
        vt = v.valve_type
        cons = getattr(m, vt.lower() + '_headloss', None)
        if cons is None or vn not in cons:
            continue
        if st == 1:
            K = ref.minor_k(v.minor_loss, v.diameter)
        elif st == 2 and vt == 'TCV':
            K = ref.minor_k(v.setting, v.diameter)
        else:
            continue
        row = cons[vn].index
        fv = m.flow[vn]
        old = fv.value
        fv.value = 0.0
        r0 = float(m.evaluate_residuals()[row])
        eps = 1e-13 * (1.0 + abs(r0))
        for q in [float(x) for x in 10 ** np.linspace(-7, 0.5, 16)]:
            fv.value = q
            lp = float(m.evaluate_residuals()[row]) - r0
            fv.value = -q
            ln_ = float(m.evaluate_residuals()[row]) - r0
            c.count('valve_sweep_points')
            wit = dict(valve=vn, type=vt, status=st, q=q, row_change_pos=lp, row_change_neg=ln_, K=K, sample=sample)
            if abs(lp + ln_) > 1e-12 * abs(lp) + 2 * eps:
                c.violate('valve_law_not_odd', '%s %s (status %d): the head-loss row changes by %.12g at q=%g but by %.12g at q=-%g' % (vt, vn, st, lp, q, ln_, q), **wit)
                break
            if abs(abs(lp) - K * q * q) > 2 * eps + 1e-9 * K * q * q:
                c.violate('valve_law_sweep', '%s %s (status %d): the head-loss row changes by %.12g at q=%g, K q^2 = %.12g' % (vt, vn, st, lp, q, K * q * q), **wit)
                break
        fv.value = old


def sweep(c, wn, hw, rng, sample):
    """Pipe head-loss row of the real algebraic model, evaluated by the compiled evaluator."""
    import numpy as np
    import wntr.sim.hydraulics as hydm
    pipes = [n for n, p in wn.pipes() if str(p.initial_status) != 'Closed' and int(p.initial_status) != 0]
    if not pipes and not wn.num_valves:
        return
    try:
        m, upd = hydm.create_hydraulic_model(wn, HW_approx=hw)
        m.set_structure()
    except Exception as e:
        c.notes.append('sweep: model build failed: %r' % (e,))
        return
    sweep_valves(c, wn, m, sample)
    if not pipes:
        return
    cons = m.approx_hazen_williams_headloss if hw == 'default' else m.piecewise_hazen_williams_headloss
    for pn in rng.sample(pipes, min(2, len(pipes))):
        link = wn.get_link(pn)
        k = ref.hw_k(link.roughness, link.diameter, link.length)
        mk = ref.minor_k(link.minor_loss, link.diameter)
        row = cons[pn].index
        fv = m.flow[pn]
        qs = list(10 ** np.linspace(-9, 1, 60)) + [2e-4 * (1 + s) for s in (-1e-3, -1e-6, 0, 1e-6, 1e-3)] + \
            [4e-4 * (1 + s) for s in (-1e-3, -1e-6, 0, 1e-6, 1e-3)] + [10 ** rng.uniform(-6, 0) for _ in range(10)]
        qs = sorted(set(qs))
        old = fv.value
        fv.value = 0.0
        r0 = m.evaluate_residuals()[row]
        loss = {}
        for q in qs:
            for s in (1.0, -1.0):
                fv.value = s * q
                loss[s * q] = r0 - m.evaluate_residuals()[row]
                c.count('sweep_points')
        fv.value = old
        prev_q, prev_l = None, None
        eps = 1e-13 * (1.0 + abs(r0))     # cancellation noise of r0 - r(q)
        for q in qs:
            lp, ln_ = loss[q], loss[-q]
            wit = dict(pipe=pn, q=q, loss_pos=lp, loss_neg=ln_, k=k, minor=mk, sample=sample)
            if abs(lp + ln_) > 1e-12 * abs(lp) + 2 * eps:
                c.violate('pipe_law_not_odd', 'pipe %s: loss(%g)=%.12g but loss(-%g)=%.12g' % (pn, q, lp, q, ln_), **wit)
                break
            law = k * q ** 1.852 + mk * q * q + (1e-5 * math.sqrt(k) * q if hw == 'default' else 0.0)
            tol = eps + 3e-5 * law + (k * 4e-4 ** 1.852 + k * 1e-3 * 4e-4 if (hw != 'default' and q < 4e-4) else 0.0)
            if abs(lp - law) > tol:
                c.violate('pipe_law_sweep', 'pipe %s q=%g: model row loss %.9g, law %.9g' % (pn, q, lp, law), **wit)
                break
            if prev_q is not None:
                if not lp > prev_l - 2 * eps or (lp <= prev_l and law - prev_law > 100 * eps):
                    c.violate('pipe_law_not_increasing', 'pipe %s: loss(%g)=%.12g <= loss(%g)=%.12g' % (pn, q, lp, prev_q, prev_l), **wit)
                    break
                # continuity: the step between neighbours is bounded by the local slope of the law (x3 margin)
                slope = 1.852 * k * q ** 0.852 + 2 * mk * q + 1e-5 * math.sqrt(k) + 1e-3 * k
                if lp - prev_l > 3 * slope * (q - prev_q) + 4 * eps:
                    c.violate('pipe_law_discontinuous', 'pipe %s: loss jumps from %.9g at q=%g to %.9g at q=%g' % (
                        pn, prev_l, prev_q, lp, q), **wit)
                    break
            prev_q, prev_l, prev_law = q, lp, law
