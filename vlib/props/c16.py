"""C16 - runs terminate with well-formed results and never hide a failed step.

Fault enumeration at the `_solver_helper` hook: a clean run counts the nonlinear solves (logical
clock); then solve k is made to report SolverStatus.error for every k (all k in thorough, a
sample in quick) under four regimes: warn / raise / backup solver succeeds / backup fails too.
Organic failures (iteration limit 1..6, trials 0..1, singular systems) are driven as well.
"""
import math

from vlib.gen import net as gnet
from vlib import simobs
from vlib.props import suite

ID = 'C16'
LEVEL = 'fault_enumeration'
RULE = ('seeded random networks (tanks, controls-by-tank-level internal logic, check valves, pumps, valves, leaks, isolation '
        "schedules; report grid k x hydraulic step or 'ALL'); per model: clean run with N solves, then injected failure of "
        'solve k for k in 0..N-1 (exhaustive in thorough, <=8 sampled k in quick) x {warn, raise, backup ok, backup fails}, '
        'plus organic failures (MAXITER 1-6, trials 0-1); signature = structural class + N; non-trivial = N>=3 and at least '
        'one fault at k>0 was exercised')
ASSUMPTIONS = ['a fault is the solver reporting SolverStatus.error at the _solver_helper boundary (what NewtonSolver returns on '
               'iteration limit, singular Jacobian, failed line search)',
               'termination is judged on the logical solve count, wall-clock watchdogs only yield inconclusive']
FLOORS = {'quick': {'conclusive': 60, 'distinct_nontrivial': 40,
                    'counters': {'clean_runs': 60, 'faults_warn': 250, 'faults_raise': 250, 'faults_backup_ok': 120,
                                 'faults_backup_fail': 120, 'organic_failures': 30, 'trial_limit_expected_failures': 5, 'tables_checked': 800,
                                 'prefix_rows_compared': 1000, 'fault_at_first_solve': 50}},
          'thorough': {'conclusive': 600, 'distinct_nontrivial': 400,
                       'counters': {'clean_runs': 600, 'faults_warn': 6000, 'faults_raise': 6000, 'faults_backup_ok': 3000,
                                    'faults_backup_fail': 3000, 'organic_failures': 300, 'trial_limit_expected_failures': 50, 'tables_checked': 20000,
                                    'prefix_rows_compared': 30000, 'fault_at_first_solve': 500}}}
CASE_TIMEOUT = {'quick': 240, 'thorough': 900}
NODE_KEYS = ['head', 'demand', 'pressure', 'leak_demand']
LINK_KEYS = ['flowrate', 'velocity', 'status', 'setting']


# appended to RULE in the evidence (vlib/runner.py)
RULE_ADDENDUM = "Added in rounds 4-5: options.hydraulic.unbalanced = CONTINUE in 40 % of the cases; report steps larger than and not a multiple of the hydraulic step in 15 % of the numeric-report cases. Round 6: half of the cases also run with the solver's TIME_LIMIT ~ 0 s; any solve that does not return 'converged' must stop the run and be reported."

def n_cases(tier):
    return base_cases(tier) + len(suite.files(tier))     # + the repository's own tests under the monitor (vlib/props/suite.py)


def base_cases(tier):
    return 130 if tier == 'quick' else 1200


def run_case(c, rng):
    if suite.maybe_run(c, ID, base_cases(c.tier)):
        return
    from wntr.sim.solvers import NewtonSolver
    spec = gnet.gen_spec(rng, steps=(3, 8) if c.tier == 'quick' else (3, 16), n_tank=(0, 2), p_leak=0.1, n_valve=(0, 1),
                         p_power_pump=0.03, n_junc=(2, 8) if c.tier == 'quick' else (2, 16))
    if rng.random() < 0.4:
        gnet.add_isolation_schedule(spec, rng, with_leak=0.3)
    # EPANET's UNBALANCED option as the example files set it (Net1, Net3: CONTINUE 10) - it means nothing to the WNTRSimulator,
    # which stops at a step it cannot solve whatever the option says.  Side stream: the main stream stays what it was.
    import random as _random
    side = _random.Random(c.index * 7919 + len(spec['junctions']))
    if side.random() < 0.4:
        spec['options']['extra_hydraulic'] = dict(spec['options'].get('extra_hydraulic') or {}, unbalanced='CONTINUE', unbalanced_value=side.choice([10, 0, 2]))
        c.count('unbalanced_continue_cases')
    if not isinstance(spec['options']['report_timestep'], str) and side.random() < 0.15:
        # a report step that is larger than the hydraulic step without being a multiple of it (the simulator announces that it
        # reduces it to the next lower multiple)
        h_ = spec['options']['hydraulic_timestep']
        spec['options']['report_timestep'] = h_ * side.choice([1, 1, 2]) + side.choice([h_ // 2, h_ // 3, 60])
        c.count('report_step_not_a_multiple_cases')
    sample = {'spec': spec}
    c.sample = {'spec_summary': gnet.signature(spec)}
    wn = gnet.build(spec)
    clean = simobs.run_wntr(wn, deep=False)
    c.count('clean_runs')
    if clean.exception is not None:
        c.violate(classify_exc(clean), 'run_sim raised %s: %s on a valid model' % (type(clean.exception).__name__, str(clean.exception)[:200]),
                  traceback=clean.traceback, sample=sample)
        c.set_sig(gnet.signature(spec), 'exc')
        return
    N = clean.n_solves
    c.set_sig(gnet.signature(spec), N)
    check_shape(c, wn, clean.results, sample, 'clean run', failed=clean.results.error_code is not None)
    if not simobs.converged(clean):
        # organic failure of the default run: shape rules only
        c.count('organic_failures')
        check_failure_report(c, clean, False, sample, 'default run (organic failure)')
        return
    # logical termination bound
    o = spec['options']
    nsteps = o['duration'] // o['hydraulic_timestep'] + 1
    events = len(spec.get('controls', [])) + 2 * len(spec['leaks']) + 4 * len(spec['tanks'])
    trials = wn.options.hydraulic.trials
    bound = (nsteps + events + 1) * (trials + 2)
    if N > bound:
        c.violate('solve_count_bound', 'clean run needed %d solves, logical bound %d' % (N, bound), sample=sample)
    ks = list(range(N))
    if c.tier == 'quick' and N > 8:
        ks = sorted(set([0, 1, N - 1] + rng.sample(range(N), 5)))
    elif N > 60:
        ks = sorted(set([0, 1, N - 1] + rng.sample(range(N), 57)))
    # reference for the comparisons: a clean run under the same protocol as the fault runs (after reset_initial_values)
    wn.reset_initial_values()
    clean2 = simobs.run_wntr(wn, deep=False)
    if not simobs.converged(clean2) or clean2.n_solves != N:
        c.violate('rerun_differs', 'second clean run after reset_initial_values: %s, %d solves (first: %d)' % (
            'failed' if not simobs.converged(clean2) else 'ok', clean2.n_solves, N), sample=sample)
        return
    R0 = clean2.results
    for k in ks:
        if k == 0:
            c.count('fault_at_first_solve')
        for regime in ('warn', 'raise', 'backup_ok', 'backup_fail'):
            if regime in ('backup_ok', 'backup_fail') and (k % 2 == 1) and c.tier == 'quick':
                continue
            wn.reset_initial_values()
            kw = {}
            if regime == 'raise':
                kw['convergence_error'] = True
            if regime.startswith('backup'):
                kw['backup_solver'] = NewtonSolver
            bad = {k} if regime != 'backup_fail' else {k, k + 1}
            tr = simobs.run_wntr(wn, deep=False, fault=lambda i, t, bad=bad: i in bad, **kw)
            c.count('faults_' + regime)
            label = 'fault at solve %d of %d, %s' % (k, N, regime)
            wit = dict(k=k, N=N, regime=regime, sample=sample)
            if regime == 'raise':
                if not isinstance(tr.exception, RuntimeError):
                    c.violate('failed_step_not_raised', '%s: convergence_error=True but %s' % (
                        label, 'run_sim returned normally' if tr.exception is None else 'raised %r' % (tr.exception,)), **wit)
                continue
            if tr.exception is not None:
                c.violate(classify_exc(tr), '%s: run_sim raised %s: %s' % (label, type(tr.exception).__name__, str(tr.exception)[:200]),
                          traceback=tr.traceback, **wit)
                continue
            res = tr.results
            if regime == 'backup_ok':
                if res.error_code is not None or any('did not converge' in w for w in tr.warnings):
                    c.violate('backup_not_used', '%s: backup solver succeeded but the run reports a failure' % label, **wit)
                check_shape(c, wn, res, sample, label)
                compare_prefix(c, res, R0, label, wit, full=True)
                continue
            check_failure_report(c, tr, True, sample, label)
            check_shape(c, wn, res, sample, label, failed=True)
            compare_prefix(c, res, R0, label, wit, full=False)
            # "the run stops there": nothing at or after the instant of the failed solve is reported, and no further step is solved
            inj = [sv for sv in tr.solves if sv['injected']]
            if inj:
                t_fail = inj[0]['t']
                late = [t_ for t_ in res.node['head'].index if t_ >= t_fail]
                if late:
                    c.violate('failed_step_reported', '%s: the solve at t = %s s failed but times %s are reported' % (label, t_fail, late[:4]), **wit)
                after = [sv for sv in tr.solves if sv['k'] > max(bad)]
                if after:
                    c.violate('run_continued_after_failure', '%s: %d more solves were made after the failed one (at t = %s)' % (
                        label, len(after), [sv['t'] for sv in after[:3]]), **wit)
                c.count('stop_at_failure_checked')
    if N >= 3 and any(k > 0 for k in ks):
        c.nontrivial = True
    # organic failures: tight iteration limits / trial limits
    for opt in ([{'MAXITER': rng.randint(1, 6)}] + ([{'MAXITER': rng.randint(2, 12)}] if c.tier != 'quick' else [])):
        wn.reset_initial_values()
        tr = simobs.run_wntr(wn, deep=False, solver_options=opt)
        label = 'solver_options=%s' % opt
        if tr.exception is not None:
            c.violate(classify_exc(tr), '%s: run_sim raised %s: %s' % (label, type(tr.exception).__name__, str(tr.exception)[:200]),
                      traceback=tr.traceback, sample=sample)
            continue
        failed = tr.results.error_code is not None
        if failed:
            c.count('organic_failures')
            check_failure_report(c, tr, False, sample, label)
        check_shape(c, wn, tr.results, sample, label, failed=failed)
        compare_prefix(c, tr.results, R0, label, dict(sample=sample, opt=opt), full=not failed)
    if rng.random() < 0.7:
        wn.reset_initial_values()
        old = wn.options.hydraulic.trials
        wn.options.hydraulic.trials = rng.choice([0, 1, 1, 2])
        tr = simobs.run_wntr(wn, deep=False)
        label = 'trials=%d' % wn.options.hydraulic.trials
        wn.options.hydraulic.trials = old
        if tr.exception is not None:
            c.violate(classify_exc(tr), '%s: run_sim raised %s: %s' % (label, type(tr.exception).__name__, str(tr.exception)[:200]),
                      traceback=tr.traceback, sample=sample)
        else:
            failed = tr.results.error_code is not None
            # the clean run's logical clock says how many re-solves each step needed: the first step needing more than `trials`
            # cannot be completed, the run has to stop there and say so
            T = int(label.split('=')[1])
            per_t = {}
            for sv in clean.solves:
                per_t[sv['t']] = per_t.get(sv['t'], 0) + 1
            over = sorted(t_ for t_, n_ in per_t.items() if n_ - 1 > T)
            if over:
                c.count('trial_limit_expected_failures')
                if not failed:
                    c.violate('trial_limit_not_enforced', '%s: the step at t = %s s needs %d re-solves (clean run), yet the run reported no failure (error_code None, '
                              'last reported time %s)' % (label, over[0], per_t[over[0]] - 1, list(tr.results.node['head'].index)[-1:]), sample=sample, label=label)
                elif any(t_ >= over[0] for t_ in tr.results.node['head'].index):
                    c.violate('failed_step_reported', '%s: the step at t = %s s could not be completed but times %s are reported' % (
                        label, over[0], [t_ for t_ in tr.results.node['head'].index if t_ >= over[0]][:4]), sample=sample, label=label)
            else:
                c.count('trial_limit_not_reached_cases')
            if failed:
                c.count('organic_failures')
                if not any('Exceeded maximum number of trials' in w or 'did not converge' in w for w in tr.warnings):
                    c.violate('failed_step_not_warned', '%s: error_code set but no warning' % label, sample=sample)
            check_shape(c, wn, tr.results, sample, label, failed=failed)
            compare_prefix(c, tr.results, R0, label, dict(sample=sample), full=not failed)
    if side.random() < 0.5:
        time_limit_runs(c, wn, side, sample)


def time_limit_runs(c, wn, rng, sample):
    """The Newton solver's public TIME_LIMIT option: a solve that is cut off by the clock is a step that could not be solved."""
    for ce in (False, True):
        wn.reset_initial_values()
        tr = simobs.run_wntr(wn, deep=False, solver_options={'TIME_LIMIT': rng.choice([0.0, 1e-9])}, convergence_error=ce)
        label = 'TIME_LIMIT ~ 0, convergence_error=%s' % ce
        unsolved = [sv for sv in tr.solves if sv['status'] != 1]
        if not unsolved:
            c.count('time_limit_not_hit_runs')       # every solve converged at once
            if tr.exception is not None:
                c.violate(classify_exc(tr), '%s: run_sim raised %s although every solve converged' % (label, type(tr.exception).__name__), traceback=tr.traceback, sample=sample)
            continue
        c.count('time_limit_hit_runs')
        t_fail = unsolved[0]['t']
        wit = dict(sample=sample, label=label, first_unsolved=unsolved[0])
        if ce:
            if not isinstance(tr.exception, RuntimeError):
                c.violate('failed_step_not_raised', '%s: the solve at t = %s s returned status %s (%s) but %s' % (
                    label, t_fail, unsolved[0]['status'], unsolved[0].get('msg'), 'run_sim returned normally' if tr.exception is None else 'raised %r' % (tr.exception,)), **wit)
            continue
        if tr.exception is not None:
            c.violate(classify_exc(tr), '%s: run_sim raised %s: %s' % (label, type(tr.exception).__name__, str(tr.exception)[:200]), traceback=tr.traceback, sample=sample)
            continue
        check_failure_report(c, tr, False, sample, label)
        check_shape(c, wn, tr.results, sample, label, failed=True)
        late = [t_ for t_ in tr.results.node['head'].index if t_ >= t_fail]
        if late:
            c.violate('failed_step_reported', '%s: the solve at t = %s s was cut off by the time limit but times %s are reported' % (label, t_fail, late[:4]), **wit)
        if len(tr.solves) > unsolved[0]['k'] + 1:
            c.violate('run_continued_after_failure', '%s: %d more solves after the one that was cut off at t = %s s' % (label, len(tr.solves) - unsolved[0]['k'] - 1, t_fail), **wit)


def classify_exc(tr):
    e = tr.exception
    if isinstance(e, ValueError) and 'number of constraints and variables must be equal' in str(e):
        return 'structure_mismatch_exception'
    return 'run_sim_exception'


def check_failure_report(c, tr, injected, sample, label):
    res = tr.results
    from wntr.sim.results import ResultsStatus
    if res.error_code != ResultsStatus.error:
        c.violate('failed_step_hidden', '%s: a step could not be solved but error_code=%r' % (label, res.error_code), sample=sample, label=label)
    if not any(('did not converge' in w) or ('Exceeded maximum number of trials' in w) for w in tr.warnings):
        c.violate('failed_step_not_warned', '%s: a step could not be solved but no warning was issued (%s)' % (label, tr.warnings[:2]),
                  sample=sample, label=label)


def check_shape(c, wn, res, sample, label, failed=False):
    import numpy as np
    c.count('tables_checked')
    nn = list(wn.node_name_list)
    ln = list(wn.link_name_list)
    rep = wn.options.time.report_timestep
    hyd = wn.options.time.hydraulic_timestep
    idx0 = None
    for group, keys, names in ((res.node, NODE_KEYS, nn), (res.link, LINK_KEYS, ln)):
        if group is None:
            c.violate('missing_tables', '%s: results tables missing' % label, sample=sample, label=label)
            return
        for key in keys:
            if key not in group:
                c.violate('missing_tables', '%s: table %s missing' % (label, key), sample=sample, label=label)
                continue
            df = group[key]
            idx = list(df.index)
            if idx0 is None:
                idx0 = idx
            elif idx != idx0:
                c.violate('index_mismatch', '%s: table %s index differs from the other tables' % (label, key), sample=sample, label=label)
            cols = list(df.columns)
            if sorted(cols) != sorted(names) or len(cols) != len(set(cols)):
                c.violate('columns_mismatch', '%s: table %s has columns %s..., model has %s...' % (label, key, cols[:6], names[:6]),
                          sample=sample, label=label)
            if len(idx) and not np.isfinite(np.asarray(df.values, dtype=float)).all():
                c.violate('non_finite_values', '%s: table %s contains non-finite numbers' % (label, key), sample=sample, label=label)
    if idx0 is None:
        return
    if any(b <= a for a, b in zip(idx0, idx0[1:])):
        c.violate('index_not_increasing', '%s: time index %s' % (label, idx0[:12]), sample=sample, label=label)
    if not isinstance(rep, str):
        step = min(rep, hyd) if rep < hyd else rep - (rep % hyd)
        offgrid = [t for t in idx0 if t % step != 0]
        if offgrid:
            c.violate('index_off_report_grid', '%s: times %s are not multiples of the report step %s' % (label, offgrid[:5], step),
                      sample=sample, label=label)
        if not failed:
            want = list(range(0, int(wn.options.time.duration) + 1, int(step)))
            if idx0 != want:
                c.violate('report_grid_incomplete', '%s: index %s..., expected %s...' % (label, idx0[:8], want[:8]), sample=sample, label=label)
    elif not failed:
        want = list(range(0, int(wn.options.time.duration) + 1, int(hyd)))
        if any(t not in idx0 for t in want):
            c.violate('report_grid_incomplete', "%s: 'ALL' index misses hydraulic steps %s" % (label, [t for t in want if t not in idx0][:5]),
                      sample=sample, label=label)


def compare_prefix(c, res, R0, label, wit, full):
    import numpy as np
    n = None
    for group, group0, keys in ((res.node, R0.node, NODE_KEYS), (res.link, R0.link, LINK_KEYS)):
        for key in keys:
            if key not in group or key not in group0:
                continue
            a, b = group[key], group0[key]
            n = len(a.index)
            if list(a.index) != list(b.index)[:n]:
                c.violate('reported_steps_differ', '%s: reported times %s are not a prefix of the non-failing run %s' % (
                    label, list(a.index)[:10], list(b.index)[:10]), **wit)
                return
            if full and n != len(b.index):
                c.violate('reported_steps_differ', '%s: %d reported steps, non-failing run has %d' % (label, n, len(b.index)), **wit)
                return
            if n == 0:
                continue
            av = np.asarray(a[list(b.columns)].values, dtype=float) if sorted(a.columns) == sorted(b.columns) else None
            if av is None:
                continue
            bv = np.asarray(b.values, dtype=float)[:n]
            diff = np.abs(av - bv)
            tol = 1e-6 * np.maximum(np.abs(av), np.abs(bv)) + 1e-6   # solver tolerance: near-zero flows are only defined to ~1e-6
            if (diff > tol).any():
                i, j = np.argwhere(diff > tol)[0]
                c.violate('prefix_values_differ', '%s: %s[%s] at t=%s is %.12g, non-failing run has %.12g' % (
                    label, key, b.columns[j], a.index[i], av[i, j], bv[i, j]), **wit)
                return
    if n:
        c.count('prefix_rows_compared', n)
