"""C06 - tank volumes integrate their net inflow and stay within their limits.

Events: every *accepted* solved step (hook on update_network_previous_values, so partial steps
that are not on the report grid are seen too): time, tank head used in that solve, tank net inflow
solved for that step.  Oracle: V(level[k+1]) - V(level[k]) = inflow[k] * (t[k+1]-t[k]) with V from
the diameter or by reference interpolation of the volume curve; level[0] = init_level; limits.
"""
import math

from vlib.gen import net as gnet
from vlib.ref import hyd as ref
from vlib import simobs

ID = 'C06'
LEVEL = 'exploration'
RULE = ('seeded random networks with 1-3 tanks (cylindrical or piecewise-linear volume curves, any min/max/init level incl. '
        'starting at a limit, small diameters so that levels reach both limits, several links per tank incl. check valves, '
        'pumps into tanks, links drawn in either direction), random timesteps/patterns; every pair of consecutive accepted '
        'solved steps x tank judged; signature = structural class + which limits were reached; non-trivial = some tank level '
        'moved by more than 1 cm')
ASSUMPTIONS = ['limit tolerance = 2 s of the larger adjacent tank flow + Htol (statement: "about two seconds")',
               'no-discharge/no-fill judged when the level is at or beyond the limit itself',
               'runs that do not converge are inconclusive here (C16)']
FLOORS = {'quick': {'conclusive': 70, 'distinct_nontrivial': 40,
                    'counters': {'tank_step_pairs': 1500, 'volcurve_step_pairs': 200, 'partial_steps': 40, 'at_min_steps': 40,
                                 'at_max_steps': 40, 'init_checks': 100}},
          'thorough': {'conclusive': 1000, 'distinct_nontrivial': 500,
                       'counters': {'tank_step_pairs': 25000, 'volcurve_step_pairs': 3000, 'partial_steps': 600,
                                    'at_min_steps': 600, 'at_max_steps': 600, 'init_checks': 1500}}}
CASE_TIMEOUT = {'quick': 120, 'thorough': 300}


# appended to RULE in the evidence (vlib/runner.py)
RULE_ADDENDUM = 'Added in round 5: 2-6 user time controls of random priority (0..6) at off-grid instants on links away from the tanks in 45 % of the cases. Round 6: 20 % of the tanks carry overflow=True (not modelled by the WNTRSimulator).'

def n_cases(tier):
    return 200 if tier == 'quick' else 3000


def run_case(c, rng):
    spec = gnet.gen_spec(rng, n_tank=(1, 3), p_vol_curve=0.4, p_tank_two_links=0.5, p_tank_pump=0.12, steps=(8, 30),
                         n_valve=(0, 1), p_power_pump=0.05, p_pdd=0.2, hyd_steps=(600, 900, 1800, 3600),
                         n_junc=(3, 10) if c.tier == 'quick' else (3, 25))
    for t in spec['tanks']:   # small tanks: levels travel
        if rng.random() < 0.7:
            t['diameter'] = rng.choice([2.0, 3.0, 4.0, 6.0])
        if t['vol_curve']:
            # piecewise-linear curve over [0, max_level + 60]: wide enough that one hydraulic step of the
            # largest possible inflow cannot leave the curve (outside it WNTR's np.interp clamps, which is
            # an input limitation, not the property)
            area = math.pi * t['diameter'] ** 2 / 4.0
            if t['min_level'] < 2.0:
                t['min_level'] = gnet._round(rng.uniform(2.0, 0.6 * t['max_level'] + 1.0), 3)
                t['max_level'] = max(t['max_level'], t['min_level'] + 1.0)
                t['init_level'] = min(max(t['init_level'], t['min_level'] + 0.02), t['max_level'] - 0.02)
            lv = sorted(set([0.0, t['max_level'] + max(60.0, 6000.0 / area)] + [gnet._round(rng.uniform(0.5, t['max_level']), 3)
                                                             for _ in range(rng.randint(1, 3))]))
            vol, prev, pts = 0.0, 0.0, []
            for L in lv:
                vol += (L - prev) * area * rng.uniform(0.6, 1.6)
                prev = L
                pts.append([L, gnet._round(vol, 8)])
            spec['curves'][t['vol_curve']]['points'] = pts
    # user time controls of any priority (an API feature: INP controls are all 'medium') at off-grid instants, on links away from
    # the tanks: whatever they do to the step sequence, every tank still integrates its net inflow and stops at its limits.
    # Side stream seeded by the case, so that the main stream stays what it was.
    import random as _random
    side = _random.Random(c.index * 7368787 + len(spec['pipes']) * 13 + len(spec['tanks']))
    if side.random() < 0.45:
        tank_names = set(t['name'] for t in spec['tanks'])
        away = [p for p in spec['pipes'] if p['start'] not in tank_names and p['end'] not in tank_names and not p['cv']]
        o_ = spec['options']
        hyd_, n_ = o_['hydraulic_timestep'], max(1, o_['duration'] // o_['hydraulic_timestep'])
        for k in range(side.randint(2, 6)):
            if not away:
                break
            spec['controls'].append({'kind': 'time', 'name': 'u%d' % (k + 1), 'time': hyd_ * side.randint(0, n_ - 1) + side.randint(1, hyd_ - 1),
                                     'target': side.choice(away)['name'], 'attr': 'status', 'value': side.choice(['CLOSED', 'OPEN', 'OPEN']),
                                     'priority': side.choice([0, 1, 2, 3, 4, 5, 6])})
        c.count('cases_with_prioritised_user_controls')
    wn = gnet.build(spec)
    sample = {'spec': spec}
    c.sample = {'spec_summary': gnet.signature(spec)}
    tr = simobs.run_wntr(wn, deep=False)
    if not simobs.converged(tr):
        c.inconclusive('sim_failed: %s' % (type(tr.exception).__name__ if tr.exception else 'not_converged'))
        c.set_sig(gnet.signature(spec))
        return
    hit = check_tanks(c, wn, tr, spec, sample)
    c.set_sig(gnet.signature(spec), ','.join(sorted(hit)))


def check_tanks(c, wn, tr, spec, sample):
    acc = tr.accepted
    hyd = wn.options.time.hydraulic_timestep
    hit = set()
    nlinks = {}
    topo = ref.Topo(wn)
    for name, tank in wn.tanks():
        curve = list(tank.vol_curve.points) if tank.vol_curve is not None else None
        area0 = math.pi * tank.diameter ** 2 / 4.0
        elev = tank.elevation
        nl = len(topo.incident(name))

        def V(level):
            return ref.tank_volume(tank, level, curve)

        def in_curve(level):
            return curve is None or (curve[0][0] < level < curve[-1][0])

        def local_area(level):
            if curve is None:
                return area0
            for k in range(1, len(curve)):
                if level <= curve[k][0] or k == len(curve) - 1:
                    return (curve[k][1] - curve[k - 1][1]) / (curve[k][0] - curve[k - 1][0])

        if acc:
            c.count('init_checks')
            l0 = acc[0]['tank_head'][name] - elev
            if acc[0]['t'] == 0 and abs(l0 - tank.init_level) > 1e-9:
                c.violate('init_level', 'tank %s starts at level %.9g, init_level %.9g' % (name, l0, tank.init_level),
                          tank=name, sample=sample)
        moved = 0.0
        qmax = 0.0
        was_rev = []

        def rev_kind(what, pumps):
            # power pumps may sit on the turbine root of their row (known finding); a head pump carrying reverse flow is a defect again
            power = all(wn.get_link(ln).pump_type == 'POWER' for ln in pumps)
            return '%s_via_reverse_%s_pump' % (what, 'power' if power else 'head')
        domain_ok = True
        if curve is not None:
            # the simulator evaluates the tank level one full hydraulic step ahead before it backtracks; a volume
            # curve that does not cover that trial excursion is outside the property's domain (np.interp clamps)
            for a in acc:
                q = a['tank_demand'][name]
                if q is None:
                    continue
                lev = a['tank_head'][name] - elev
                vt = V(lev) + q * hyd
                if not (curve[0][1] < vt < curve[-1][1]) or not in_curve(lev):
                    domain_ok = False
            if not domain_ok:
                c.count('curve_domain_exceeded_tanks')
        for k in range(len(acc)):
            a = acc[k]
            lev = a['tank_head'][name] - elev
            q = a['tank_demand'][name]
            if q is None:
                continue
            if k + 1 < len(acc):
                b = acc[k + 1]
                dt = b['t'] - a['t']
                lev2 = b['tank_head'][name] - elev
                moved = max(moved, abs(lev2 - tank.init_level))
                c.count('tank_step_pairs')
                if curve is not None:
                    c.count('volcurve_step_pairs')
                if dt % hyd != 0 or a['t'] % hyd != 0:
                    c.count('partial_steps')
                if dt <= 0:
                    c.violate('time_not_increasing', 'accepted steps %s -> %s' % (a['t'], b['t']), sample=sample)
                    continue
                if in_curve(lev) and in_curve(lev2):
                    dV = V(lev2) - V(lev)
                    want = q * dt
                    if abs(dV - want) > 1e-9 * max(abs(want), abs(V(lev)), 1.0) + 1e-9:
                        c.violate('volume_integration', 'tank %s t=%s..%s: volume changed by %.9g m3, net inflow %.9g m3/s x %s s = %.9g m3 (levels %.6f -> %.6f%s)' % (
                            name, a['t'], b['t'], dV, q, dt, want, lev, lev2, ', volume curve' if curve else ''),
                            tank=name, t0=a['t'], t1=b['t'], level0=lev, level1=lev2, inflow=q, curve=curve, sample=sample)
            # limits: the overshoot allowance is 2 s of the largest flow seen since the level was last inside
            inside = tank.min_level <= lev <= tank.max_level
            if inside or k == 0:
                qmax = abs(q)
            else:
                qmax = max(qmax, abs(q), abs(acc[k - 1]['tank_demand'][name] or 0.0))
            if not domain_ok:
                continue
            rev = [ln for ln, f in a['tank_link_flow'][name].items()
                   if wn.get_link(ln).link_type == 'Pump' and f is not None and f < -ref.QTOL]
            slackV = 2.0 * qmax + ref.HTOL * local_area(lev) + 1e-9
            if V(lev) < V(tank.min_level) - slackV and lev < tank.min_level:
                c.violate(rev_kind('below_min', rev or was_rev) if rev or was_rev else 'below_min_level',
                          'tank %s t=%s level %.6f below min_level %.6f by %.4g m3 (2 s of flow = %.4g m3)%s' % (
                    name, a['t'], lev, tank.min_level, V(tank.min_level) - V(lev), 2 * qmax,
                    ' - drained backwards through pump %s' % (rev or was_rev) if (rev or was_rev) else ''),
                    tank=name, t=a['t'], level=lev, sample=sample)
            if V(lev) > V(tank.max_level) + slackV and lev > tank.max_level:
                c.violate('above_max_level', 'tank %s t=%s level %.6f above max_level %.6f by %.4g m3 (2 s of flow = %.4g m3)' % (
                    name, a['t'], lev, tank.max_level, V(lev) - V(tank.max_level), 2 * qmax), tank=name, t=a['t'], level=lev, sample=sample)
            if lev <= tank.min_level:
                hit.add('min')
                c.count('at_min_steps')
                if q < -(ref.QTOL * nl + 1e-6):
                    c.violate(rev_kind('discharge_at_min', rev) if rev else 'discharge_at_min',
                              'tank %s t=%s at level %.6f <= min_level %.6f but net inflow %.6g%s' % (
                        name, a['t'], lev, tank.min_level, q, ' - backwards through pump %s' % rev if rev else ''),
                        tank=name, t=a['t'], level=lev, inflow=q, flows=a['tank_link_flow'][name], sample=sample)
            if lev >= tank.max_level:
                hit.add('max')
                c.count('at_max_steps')
                if q > (ref.QTOL * nl + 1e-6):
                    c.violate('fill_at_max', 'tank %s t=%s at level %.6f >= max_level %.6f but net inflow %.6g' % (
                        name, a['t'], lev, tank.max_level, q), tank=name, t=a['t'], level=lev, inflow=q,
                        flows=a['tank_link_flow'][name], sample=sample)
            was_rev = was_rev or rev
        if moved > 0.01:
            c.nontrivial = True
    return hit
