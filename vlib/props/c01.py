"""C01 - mass conservation at every node and reported step; DD demand = requested demand.

Oracle is evaluated on the tables run_sim returns, with adjacency rebuilt from the links' own
end-node names and the requested demand from an independent pattern clock.
"""
from vlib.gen import net as gnet
from vlib.ref import hyd as ref
from vlib import simobs
from vlib.props import common, suite

ID = 'C01'
LEVEL = 'exploration'
RULE = ('seeded random networks (trees + chords + parallel links, 1-2 reservoirs, 0-2 tanks incl. volume curves and links '
        'reversed into tanks, head/power pumps, PRV/PSV/FCV/TCV, check valves, closed pipes, 0-3 demand entries with '
        'categories/patterns, junction leaks, DD/PDD, pattern_start, demand multiplier, hydraulic!=pattern!=report step) '
        'plus perturbed example networks; every junction/tank/reservoir x every reported step is judged; signature = '
        'structural class of the network; non-trivial = converged, >=3 reported steps and at least one of loop/parallel/'
        'tank/leak/multi-demand/pattern_start')
ASSUMPTIONS = ['balance tolerance 1e-6 m3/s = NewtonSolver residual tolerance (+1e-9 float slack)',
               'a run that does not converge or raises is inconclusive here and reported under C16']
FLOORS = {'quick': {'conclusive': 40, 'distinct_nontrivial': 20,
                    'counters': {'junction_steps': 2000, 'tank_steps': 50, 'reservoir_steps': 100, 'dd_demand_checks': 500,
                                 'pdd_junction_steps': 100, 'leak_node_steps': 20, 'parallel_pair_cases': 3,
                                 'zeroed_junction_steps': 30, 'zeroed_leaky_junction_steps': 5}},
          'thorough': {'conclusive': 600, 'distinct_nontrivial': 300,
                       'counters': {'junction_steps': 40000, 'tank_steps': 1000, 'reservoir_steps': 2000,
                                    'dd_demand_checks': 10000, 'pdd_junction_steps': 2000, 'leak_node_steps': 400,
                                    'parallel_pair_cases': 50, 'zeroed_junction_steps': 500,
                                    'zeroed_leaky_junction_steps': 80}}}
CASE_TIMEOUT = {'quick': 120, 'thorough': 300}
TOL = 1e-6 + 1e-9


# appended to RULE in the evidence (vlib/runner.py)
RULE_ADDENDUM = "Added in rounds 4-5: options.time.pattern_interpolation (12 % of the specs), any start clock time, the model's default demand pattern (options.hydraulic.pattern) for entries that name none. Round 7: every third pressure-dependent case constructs the simulator while the model still says DD."

def n_cases(tier):
    return base_cases(tier) + len(suite.files(tier))     # + the repository's own tests under the monitor (vlib/props/suite.py)


def base_cases(tier):
    return 160 if tier == 'quick' else 2400


def make_wn(c, rng):
    """Returns (wn, sample, sigparts)."""
    import wntr
    if c.index % 20 == 19:
        wn, desc = common.perturbed_example(rng, c.tier)
        return wn, desc, ('example', desc['file'], desc['hyd'], desc['pattern_start'], desc['mode'])
    if c.index % 20 == 18:
        wn, desc = common.testnet(rng, light=False)
        if wn is not None:
            c.count('testnet_cases')
            return wn, desc, ('testnet', desc['file'], desc['mode'], desc['mult'])
    spec = gnet.gen_spec(rng, p_leak=0.12 if rng.random() < 0.5 else 0.0,
                         n_junc=(3, 14) if c.tier == 'quick' else (3, 40))
    if c.index % 3 == 0:
        gnet.add_isolation_schedule(spec, rng)
    if c.index % 7 == 3 and spec['patterns']:
        # options.hydraulic.pattern: the pattern of every demand entry that names none
        spec['options']['extra_hydraulic'] = dict(spec['options'].get('extra_hydraulic') or {}, pattern=sorted(spec['patterns'])[0])
        c.count('default_pattern_cases')
    wn = gnet.build(spec)
    return wn, {'spec': spec}, (gnet.signature(spec),)


def run_case(c, rng):
    if suite.maybe_run(c, ID, base_cases(c.tier)):
        return
    wn, sample, sig = make_wn(c, rng)
    c.sample = sample if 'spec' not in sample else {'spec_summary': gnet.signature(sample['spec'])}
    c.set_sig(*sig)
    # a simulator object made while the model still said DD, the demand model switched to PDD afterwards (options are read when the
    # run starts, not when the simulator is constructed): every third pressure-dependent case
    sim_obj = None
    dm = wn.options.hydraulic.demand_model
    if str(dm).upper() in ('PDD', 'PDA') and c.index % 3 == 0:
        import wntr
        wn.options.hydraulic.demand_model = 'DD'
        sim_obj = wntr.sim.WNTRSimulator(wn)
        wn.options.hydraulic.demand_model = dm
        c.count('simulator_made_before_the_demand_model_was_set')
    tr = simobs.run_wntr(wn, deep=False, sim=sim_obj, HW_approx=rng.choice(['default', 'default', 'piecewise']))
    if not simobs.converged(tr):
        c.inconclusive('sim_failed: %s' % (type(tr.exception).__name__ if tr.exception else 'not_converged'))
        return
    res = tr.results
    check_balance(c, wn, res, sample)
    times = list(res.node['demand'].index)
    topo = ref.Topo(wn)
    feats = common.features(wn, topo)
    if feats['parallel']:
        c.count('parallel_pair_cases')
    c.nontrivial = len(times) >= 3 and any(feats[k] for k in ('loops', 'parallel', 'tanks', 'leaks', 'multi_demand', 'pattern_start'))


def check_balance(c, wn, res, sample, prop='C01'):
    import numpy as np
    topo = ref.Topo(wn)
    Q = res.link['flowrate']
    D = res.node['demand']
    L = res.node['leak_demand']
    S = res.link['status']
    times = list(D.index)
    mode = wn.options.hydraulic.demand_model
    dd = mode in ('DD', 'DDA')
    qv = {ln: Q[ln].values for ln in topo.links}
    for name, node in wn.nodes():
        net = np.zeros(len(times))
        tot = np.zeros(len(times))
        for ln in topo.inlets[name]:
            net = net + qv[ln]
            tot = tot + abs(qv[ln])
        for ln in topo.outlets[name]:
            net = net - qv[ln]
            tot = tot + abs(qv[ln])
        d = D[name].values
        lk = L[name].values
        if node.node_type == 'Junction':
            resid = net - d - lk
            tol = TOL + 1e-12 * tot
            c.count('junction_steps', len(times))
            if not dd:
                c.count('pdd_junction_steps', len(times))
            if (abs(lk) > 0).any():
                c.count('leak_node_steps', int((abs(lk) > 0).sum()))
            zero = (tot == 0) & (d == 0)
            if zero.any() and len(topo.incident(name)) > 0:
                c.count('zeroed_junction_steps', int(zero.sum()))
                if getattr(node, '_leak', False):
                    c.count('zeroed_leaky_junction_steps', int(zero.sum()))
            bad = np.where(~(abs(resid) <= tol))[0]
            if len(bad):
                i = int(bad[0])
                c.violate('junction_imbalance', 'junction %s t=%s: in-out=%.9g demand=%.9g leak=%.9g residual=%.3g' % (
                    name, times[i], net[i], d[i], lk[i], resid[i]), node=name, t=times[i], residual=float(resid[i]),
                    flows={ln: float(qv[ln][i]) for ln in topo.incident(name)}, demand=float(d[i]), leak=float(lk[i]),
                    inlets=topo.inlets[name], outlets=topo.outlets[name], sample=sample)
        else:
            if node.node_type == 'Tank':
                resid = net - d - lk
                c.count('tank_steps', len(times))
            else:
                resid = net - d
                c.count('reservoir_steps', len(times))
            tol = 1e-12 * (tot + abs(d)) + 1e-15
            bad = np.where(~(abs(resid) <= tol))[0]
            if len(bad):
                i = int(bad[0])
                c.violate('source_demand_mismatch', '%s %s t=%s: net inflow=%.12g reported demand=%.12g leak=%.6g' % (
                    node.node_type, name, times[i], net[i], d[i], lk[i]), node=name, t=times[i],
                    flows={ln: float(qv[ln][i]) for ln in topo.incident(name)}, inlets=topo.inlets[name],
                    outlets=topo.outlets[name], sample=sample)
    if dd:
        for i, t in enumerate(times):
            closed = set(ln for ln in topo.links if S[ln].values[i] == 0)
            conn = topo.connected_nodes(closed)
            for name, j in wn.junctions():
                if name not in conn:
                    continue
                want = ref.requested_demand(wn, j, t)
                got = D[name].values[i]
                c.count('dd_demand_checks')
                if not abs(got - want) <= 1e-12 * max(abs(want), abs(got)) + 1e-15:
                    c.violate('dd_demand_mismatch', 'junction %s t=%s: delivered %.12g, requested %.12g (pattern_start=%s)' % (
                        name, t, got, want, wn.options.time.pattern_start), node=name, t=t, got=float(got), want=float(want),
                        sample=sample)
                    return
