"""Helpers shared by the simulation monitors."""
import os

EXAMPLES = os.path.join(os.environ.get('VERIF_REPO', '/repo'), 'examples', 'networks')
SMALL = ['Net1.inp', 'Net2.inp', 'Net3.inp']


# the repository's own small test networks: hand-made to exercise one feature each (second corpus, thorough tiers)
TESTNETS_DIR = os.path.join(os.environ.get('VERIF_REPO', '/repo'), 'wntr', 'tests', 'networks_for_testing')
TESTNETS = ['Anytown.inp', 'Awumah_layout1.inp', 'Awumah_layout8.inp', 'CCWI17-HermanMahmoud.inp', 'Todini_Fig2_optCost_CMH.inp',
            'Todini_Fig2_optCost_GPM.inp', 'Todini_Fig2_solA_CMH.inp', 'Todini_Fig2_solA_GPM.inp', 'conditional_controls_1.inp',
            'conditional_controls_2.inp', 'control_comb.inp', 'cv_controls.inp', 'leaks.inp', 'simulator.inp', 'tank_controls_1.inp',
            'tank_controls_2.inp', 'time_controls.inp', 'times.inp', 'skeletonize.inp', 'fcv_open_no_downstream_sources.inp',
            'fcv_open_no_upstream_sources.inp', 'prv_closed_no_upstream_sources.inp', 'prv_open_no_upstream_sources.inp',
            'psv_open_no_downstream_sources.inp']


def load_example(fname):
    import wntr
    d = EXAMPLES if os.path.exists(os.path.join(EXAMPLES, fname)) else TESTNETS_DIR
    return wntr.network.WaterNetworkModel(os.path.join(d, fname))


def testnet(rng, light=True):
    """One of the repository's test networks with lightly perturbed run options; (wn, desc) or (None, reason)."""
    f = rng.choice(TESTNETS)
    path = os.path.join(TESTNETS_DIR, f)
    if not os.path.exists(path):
        return None, 'missing %s' % f
    import wntr
    try:
        wn = wntr.network.WaterNetworkModel(path)
    except Exception as e:  # noqa
        return None, 'unreadable %s: %s' % (f, str(e)[:60])
    if str(wn.options.hydraulic.headloss).upper() not in ('H-W', 'HW'):
        return None, 'headloss %s' % wn.options.hydraulic.headloss
    t = wn.options.time
    desc = {'file': f, 'mode': 'DD'}
    if rng.random() < 0.5:
        t.duration = min(max(t.duration, 4 * t.hydraulic_timestep), 12 * t.hydraulic_timestep)
    if rng.random() < 0.3:
        wn.options.hydraulic.demand_multiplier = rng.choice([0.9, 1.1])
    if not light and rng.random() < 0.3:
        wn.options.hydraulic.demand_model = 'PDD'
        wn.options.hydraulic.required_pressure = rng.choice([10.0, 20.0])
        wn.options.hydraulic.minimum_pressure = rng.choice([0.0, 3.0])
        desc['mode'] = 'PDD'
    desc.update(hyd=t.hydraulic_timestep, duration=t.duration, pattern_start=t.pattern_start, mult=wn.options.hydraulic.demand_multiplier)
    return wn, desc


def perturbed_example(rng, tier, files=None):
    files = files or (SMALL if tier == 'quick' else SMALL + ['Net3.inp', 'Net1.inp'])
    f = rng.choice(files)
    wn = load_example(f)
    t = wn.options.time
    hyd = rng.choice([900, 1800, 3600])
    t.hydraulic_timestep = hyd
    t.report_timestep = hyd * rng.choice([1, 1, 2]) if rng.random() < 0.7 else 'ALL'
    t.duration = hyd * rng.randint(4, 10 if tier == 'quick' else 24)
    t.pattern_start = rng.choice([0, 0, t.pattern_timestep, 3 * t.pattern_timestep, 5400])
    wn.options.hydraulic.demand_multiplier = rng.choice([1.0, 0.8, 1.2])
    mode = 'DD'
    if rng.random() < 0.3:
        mode = 'PDD'
        wn.options.hydraulic.demand_model = 'PDD'
        wn.options.hydraulic.required_pressure = rng.choice([10.0, 20.0, 30.0])
        wn.options.hydraulic.minimum_pressure = rng.choice([0.0, 3.0])
    desc = {'file': f, 'hyd': hyd, 'report': t.report_timestep, 'duration': t.duration,
            'pattern_start': t.pattern_start, 'mult': wn.options.hydraulic.demand_multiplier, 'mode': mode}
    return wn, desc


def features(wn, topo):
    pairs = {}
    for ln, (a, b) in topo.links.items():
        k = tuple(sorted((a, b)))
        pairs[k] = pairs.get(k, 0) + 1
    nn = len(topo.node_type)
    return {
        'loops': len(topo.links) - nn + 1 > 0,
        'parallel': any(v > 1 for v in pairs.values()),
        'tanks': wn.num_tanks > 0,
        'leaks': any(getattr(n, '_leak', False) for _, n in wn.nodes() if hasattr(n, '_leak')),
        'multi_demand': any(len(j.demand_timeseries_list) > 1 for _, j in wn.junctions()),
        'pattern_start': wn.options.time.pattern_start != 0,
    }
