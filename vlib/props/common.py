"""Helpers shared by the simulation monitors."""
import os

EXAMPLES = os.path.join(os.environ.get('VERIF_REPO', '/repo'), 'examples', 'networks')
SMALL = ['Net1.inp', 'Net2.inp', 'Net3.inp']


def load_example(fname):
    import wntr
    return wntr.network.WaterNetworkModel(os.path.join(EXAMPLES, fname))


def perturbed_example(rng, tier, files=None):
    files = files or (SMALL if tier == 'quick' else SMALL + ['Net3.inp', 'Net1.inp'])
    f = rng.choice(files)
    wn = load_example(f)
    t = wn.options.time
    hyd = rng.choice([900, 1800, 3600])
    t.hydraulic_timestep = hyd
    t.report_timestep = hyd * rng.choice([1, 1, 2]) if rng.random() < 0.7 else 'ALL'
    t.duration = hyd * rng.randint(4, 10 if tier == 'quick' else 24)
    t.pattern_start = rng.choice([0, 0, t.pattern_timestep, 3 * t.pattern_timestep, 5400])
    wn.options.hydraulic.demand_multiplier = rng.choice([1.0, 0.8, 1.2])
    mode = 'DD'
    if rng.random() < 0.3:
        mode = 'PDD'
        wn.options.hydraulic.demand_model = 'PDD'
        wn.options.hydraulic.required_pressure = rng.choice([10.0, 20.0, 30.0])
        wn.options.hydraulic.minimum_pressure = rng.choice([0.0, 3.0])
    desc = {'file': f, 'hyd': hyd, 'report': t.report_timestep, 'duration': t.duration,
            'pattern_start': t.pattern_start, 'mult': wn.options.hydraulic.demand_multiplier, 'mode': mode}
    return wn, desc


def features(wn, topo):
    pairs = {}
    for ln, (a, b) in topo.links.items():
        k = tuple(sorted((a, b)))
        pairs[k] = pairs.get(k, 0) + 1
    nn = len(topo.node_type)
    return {
        'loops': len(topo.links) - nn + 1 > 0,
        'parallel': any(v > 1 for v in pairs.values()),
        'tanks': wn.num_tanks > 0,
        'leaks': any(getattr(n, '_leak', False) for _, n in wn.nodes() if hasattr(n, '_leak')),
        'multi_demand': any(len(j.demand_timeseries_list) > 1 for _, j in wn.junctions()),
        'pattern_start': wn.options.time.pattern_start != 0,
    }
