"""C19 - pipe splitting, breaking and skeletonization keep what they promise to keep.

Events: the model returned by split_pipe / break_pipe / skeletonize (to_dict, geometry, lengths),
the input model before/after the call, the skeleton map, and WNTRSimulator results before/after a split.
Oracle: taken from the statement - total pipe length conserved, every other element's dictionary
unchanged, new junction(s) at the requested fraction of length / elevation / coordinates (along the
vertices), new pipe without check valve, input untouched for return_copy=True, unchanged hydraulics
for a split; skeletonize keeps tanks, reservoirs, pumps, valves, control-referenced and excluded
elements, conserves total expected demand at every pattern instant, map partitions the original nodes.
"""
import copy
import json
import math
import traceback

from vlib.gen import net as gnet
from vlib import simobs

ID = 'C19'
LEVEL = 'exploration'
RULE = ('G-net networks with vertices on a third of the pipes, check valves, minor losses, closed pipes, pipes at reservoirs and tanks; '
        'per case one of: split_pipe / break_pipe of a random pipe x fraction in {0, 1, random} x add_pipe_at_end x return_copy, or '
        'skeletonize with a diameter threshold from the pipe diameters x branch/series/parallel flags x exclusion lists x use_epanet x '
        'return_copy on networks with dead ends, series chains, parallel pipes and controls; split cases with 0.02 < fraction < 0.98 are '
        'also simulated before/after; signature = operation + structural class + (vertices, cv, minor loss, fraction class); non-trivial = '
        'split/break of a pipe with vertices, check valve or minor loss, or a skeletonization that removed at least one junction')
ASSUMPTIONS = ['a reservoir has no elevation: the new junction then takes the elevation of the other end (as documented)',
               'hydraulics of a split are compared on the original nodes and links at every report step: heads 1e-3 m + 1e-4 relative, flows 1e-5 m3/s + 1e-3 of the largest flow (two Newton solutions of differently sized systems agree only to the convergence tolerance)',
               'total demand is compared at every pattern instant of one common period (sum over junctions of base x multiplier)']
FLOORS = {'quick': {'conclusive': 150, 'distinct_nontrivial': 70,
                    'counters': {'splits': 60, 'breaks': 40, 'skeletonizations': 50, 'fraction_zero_or_one': 20, 'pipes_with_vertices': 25,
                                 'check_valve_pipes': 10, 'minor_loss_pipes': 15, 'split_hydraulics_compared': 25,
                                 'elements_compared_unchanged': 2500, 'junctions_removed_by_skeletonize': 60, 'demand_instants_compared': 400,
                                 'return_copy_true': 70, 'return_copy_false': 40}},
          'thorough': {'conclusive': 2500, 'distinct_nontrivial': 1000,
                       'counters': {'splits': 1000, 'breaks': 700, 'skeletonizations': 800, 'fraction_zero_or_one': 350,
                                    'pipes_with_vertices': 400, 'check_valve_pipes': 150, 'minor_loss_pipes': 250,
                                    'split_hydraulics_compared': 400, 'elements_compared_unchanged': 40000,
                                    'junctions_removed_by_skeletonize': 1000, 'demand_instants_compared': 7000,
                                    'return_copy_true': 1200, 'return_copy_false': 700}}}
CASE_TIMEOUT = {'quick': 240, 'thorough': 600}


# appended to RULE in the evidence (vlib/runner.py)
RULE_ADDENDUM = "Added in round 6: skeletonize specs carry conditional controls and AND / OR rules over junction pressures, tank levels and pipe flows; the set of protected elements is read off the generator's spec, not asked of the model. Round 7: every third branch pipe carries the name of the junction it leads to, and a rule looks at both."

def n_cases(tier):
    return 260 if tier == 'quick' else 8000


def jd(x):
    return json.loads(json.dumps(x, default=str))


def model_dict(wn):
    d = jd(wn.to_dict())
    d.pop('version', None)
    return d


def by_name(lst):
    return {x['name']: x for x in lst}


def polyline_point(points, frac):
    """Point at fraction `frac` of the length of the polyline."""
    seg = [math.dist(a, b) for a, b in zip(points, points[1:])]
    total = sum(seg)
    if total == 0:
        return tuple(points[0]), total
    target = total * frac
    acc = 0.0
    for (a, b), L in zip(zip(points, points[1:]), seg):
        if acc + L >= target and L > 0:
            s = (target - acc) / L
            return (a[0] + (b[0] - a[0]) * s, a[1] + (b[1] - a[1]) * s), total
        acc += L
    return tuple(points[-1]), total


def total_demand(wn, t):
    tot = 0.0
    step = wn.options.time.pattern_timestep
    for _, j in wn.junctions():
        for d in j.demand_timeseries_list:
            m = 1.0
            p = d.pattern
            if p is not None and len(p.multipliers) > 0:
                m = p.multipliers[int(t // step) % len(p.multipliers)] if len(p.multipliers) > 1 else p.multipliers[0]
            tot += d.base_value * m
    return tot


def make_network(rng, tier, for_skel):
    spec = gnet.gen_spec(rng, n_junc=(3, 10) if tier == 'quick' else (3, 22), n_tank=(0, 2), n_valve=(0, 1), p_cv=0.2, p_minor=0.4,
                         p_closed=0.08, p_parallel=0.5 if for_skel else 0.25, p_chord=0.15 if for_skel else 0.25, p_pdd=0.0,
                         p_report_all=0.0, steps=(2, 5), p_power_pump=0.1, p_multi_demand=0.4)
    # vertices on some pipes
    coords = {}
    for grp in ('junctions', 'tanks', 'reservoirs'):
        for n in spec[grp]:
            coords[n['name']] = n['coordinates']
    for p in spec['pipes']:
        if rng.random() < 0.35:
            a, b = coords[p['start']], coords[p['end']]
            k = rng.choice([1, 1, 2, 3])
            vs = []
            for i in range(k):
                s = (i + 1) / (k + 1)
                vs.append([gnet._round(a[0] + (b[0] - a[0]) * s + rng.uniform(-80, 80), 7), gnet._round(a[1] + (b[1] - a[1]) * s + rng.uniform(-80, 80), 7)])
            p['vertices'] = vs
    if for_skel:
        # dead-end branches and series chains of small pipes
        nj = len(spec['junctions'])
        for _ in range(rng.randint(1, 4)):
            at = rng.choice(spec['junctions'])['name']
            chain = rng.randint(1, 3)
            for k in range(chain):
                nm = 'JB%d' % (len(spec['junctions']) + 1)
                spec['junctions'].append({'name': nm, 'elevation': gnet._round(rng.uniform(0, 30), 4),
                                          'demands': [{'base': gnet._round(rng.uniform(0.0002, 0.002), 4), 'pattern': rng.choice(list(spec['patterns']) + [None]), 'category': None}]
                                          if rng.random() < 0.8 else [],
                                          'coordinates': [gnet._round(rng.uniform(0, 1000), 5), gnet._round(rng.uniform(0, 1000), 5)]})
                # nodes and links have separate name spaces (EPANET's numeric ids usually overlap): every third branch pipe
                # carries the name of the junction it leads to
                pname = nm if (len(spec['pipes']) + k) % 3 == 0 else 'PB%d' % (len(spec['pipes']) + 1)
                spec['pipes'].append({'name': pname, 'start': at, 'end': nm, 'length': gnet._round(rng.uniform(20, 400), 4),
                                      'diameter': rng.choice([0.05, 0.08, 0.1, 0.15]), 'roughness': float(rng.choice([90, 100, 120])),
                                      'minor_loss': 0.0, 'status': 'OPEN', 'cv': False})
                at = nm
        # a few controls
        links = [p['name'] for p in spec['pipes']]
        for k in range(rng.randint(0, 2)):
            spec['controls'].append({'kind': 'time', 'name': 'c%d' % k, 'time': 3600, 'target': rng.choice(links), 'attr': 'status', 'value': 'CLOSED'})
        # conditional controls and rules with AND / OR trees over junction pressures, tank levels and pipe flows: everything a
        # condition looks at, in whichever operand, must survive skeletonization (side stream seeded by the content)
        import json as _json
        import random as _random
        import zlib as _zlib
        side = _random.Random(_zlib.crc32(_json.dumps(spec, sort_keys=True, default=str).encode()))
        if side.random() < 0.5:
            juncs = [j['name'] for j in spec['junctions']]
            tanks = [t['name'] for t in spec['tanks']]

            def leaf():
                u = side.random()
                if u < 0.6 or not links:
                    return {'kind': 'node', 'source': side.choice(juncs), 'attr': 'pressure', 'op': side.choice(['<', '>']), 'threshold': 15.0}
                if u < 0.75 and tanks:
                    return {'kind': 'node', 'source': side.choice(tanks), 'attr': 'level', 'op': '<', 'threshold': 2.0}
                return {'kind': 'link', 'source': side.choice(links), 'attr': 'flow', 'op': '>', 'threshold': 0.001}
            shared = [j for j in juncs if j in links]
            for k in range(side.randint(1, 2)):
                cond = leaf()
                if shared and k == 0 and side.random() < 0.7:
                    x = side.choice(shared)      # a condition on junction x and on the pipe of the same name
                    cond = {'kind': side.choice(['or', 'and']), 'a': {'kind': 'node', 'source': x, 'attr': 'pressure', 'op': '<', 'threshold': 15.0},
                            'b': {'kind': 'link', 'source': x, 'attr': 'flow', 'op': '>', 'threshold': 0.001}}
                    if side.random() < 0.5:
                        cond['a'], cond['b'] = cond['b'], cond['a']
                for _ in range(side.choice([0, 1, 1, 2])):
                    a, b = (cond, leaf()) if side.random() < 0.6 else (leaf(), cond)
                    cond = {'kind': side.choice(['or', 'or', 'and']), 'a': a, 'b': b}
                tgt = side.choice([p['name'] for p in spec['pumps']] or links)
                if cond['kind'] == 'node' and side.random() < 0.5:
                    spec['controls'].append({'kind': 'cond', 'name': 'cc%d' % k, 'source': cond['source'], 'sattr': cond['attr'], 'op': cond['op'],
                                             'threshold': cond['threshold'], 'target': tgt, 'attr': 'status', 'value': 'OPEN'})
                else:
                    spec['controls'].append({'kind': 'rule', 'name': 'rr%d' % k, 'priority': 3, 'cond': cond,
                                             'then': [{'target': tgt, 'attr': 'status', 'value': side.choice(['OPEN', 'CLOSED'])}]})
    return spec


def required_by_controls(spec):
    """(nodes, links) that some control or rule of the spec looks at or acts on - read off the spec, not asked of the model."""
    nodes, links = set(), set()

    def walk(cond):
        if cond['kind'] in ('and', 'or'):
            walk(cond['a'])
            walk(cond['b'])
        elif cond['kind'] == 'node':
            nodes.add(cond['source'])
        elif cond['kind'] == 'link':
            links.add(cond['source'])
    for cs in spec['controls']:
        if cs['kind'] in ('time', 'cond'):
            links.add(cs['target'])
            if cs['kind'] == 'cond':
                nodes.add(cs['source'])
        elif cs['kind'] == 'rule':
            walk(cs['cond'])
            for a in cs['then'] + cs.get('else', []):
                links.add(a['target'])
    return nodes, links


def run_case(c, rng):
    op = ['split', 'split', 'break', 'skel', 'split', 'break', 'skel'][c.index % 7]
    if op == 'skel':
        return run_skel(c, rng)
    return run_split(c, rng, op)


def run_split(c, rng, op):
    import wntr
    spec = make_network(rng, c.tier, False)
    wn = gnet.build(spec)
    pipe = rng.choice(spec['pipes'])
    frac = rng.choice([0.0, 1.0, 0.5, round(rng.uniform(0.03, 0.97), 3), round(rng.uniform(0.03, 0.97), 3), round(rng.uniform(0.03, 0.97), 3)])
    at_end = rng.random() < 0.5
    ret_copy = rng.random() < 0.65
    has_v = bool(pipe.get('vertices'))
    wit = {'spec': spec, 'pipe': pipe, 'fraction': frac, 'add_pipe_at_end': at_end, 'return_copy': ret_copy, 'operation': op}
    c.count('splits' if op == 'split' else 'breaks')
    if frac in (0.0, 1.0):
        c.count('fraction_zero_or_one')
    if has_v:
        c.count('pipes_with_vertices')
    if pipe['cv']:
        c.count('check_valve_pipes')
    if pipe['minor_loss'] > 0:
        c.count('minor_loss_pipes')
    c.count('return_copy_true' if ret_copy else 'return_copy_false')
    c.set_sig(op, gnet.signature(spec), has_v, pipe['cv'], pipe['minor_loss'] > 0, 'f0' if frac == 0 else 'f1' if frac == 1 else 'mid', at_end, ret_copy)
    c.nontrivial = has_v or pipe['cv'] or pipe['minor_loss'] > 0
    c.sample = {'operation': op, 'pipe': pipe, 'fraction': frac, 'add_pipe_at_end': at_end, 'return_copy': ret_copy,
                'network': gnet.signature(spec)}
    before = model_dict(wn)
    sim_before = None
    if op == 'split' and 0.02 < frac < 0.98:
        tr = simobs.run_wntr(wn, deep=False)
        if simobs.converged(tr):
            sim_before = tr.results
        wn.reset_initial_values()
        before = model_dict(wn)
    try:
        if op == 'split':
            wn2 = wntr.morph.split_pipe(wn, pipe['name'], 'NEWPIPE', 'NEWJ', add_pipe_at_end=at_end, split_at_point=frac, return_copy=ret_copy)
            newj = ['NEWJ']
        else:
            wn2 = wntr.morph.break_pipe(wn, pipe['name'], 'NEWPIPE', 'NEWJ_A', 'NEWJ_B', add_pipe_at_end=at_end, split_at_point=frac, return_copy=ret_copy)
            newj = ['NEWJ_A', 'NEWJ_B']
    except Exception as e:
        tb = traceback.format_exc()[-1500:]
        kind = op + '_raised'
        if isinstance(e, UnboundLocalError) and has_v and frac == 0.0:
            kind = 'split_fraction_zero_with_vertices_unbound'
        c.violate(kind, '%s_pipe(%s, fraction=%s, add_pipe_at_end=%s) raised %s: %s' % (op, pipe['name'], frac, at_end, type(e).__name__, e), traceback=tb, **wit)
        return
    after_in = model_dict(wn)
    if ret_copy:
        if wn2 is wn:
            c.violate('return_copy_returned_input', 'return_copy=True returned the input object', **wit)
        if after_in != before:
            c.violate('input_model_modified', 'return_copy=True but the input model changed: %s' % _first_diff(before, after_in), **wit)
    elif wn2 is not wn:
        c.violate('return_copy_false_returned_copy', 'return_copy=False returned a different object', **wit)
    d2 = model_dict(wn2)
    n0, n2 = by_name(before['nodes']), by_name(d2['nodes'])
    l0, l2 = by_name(before['links']), by_name(d2['links'])
    # every other element unchanged
    for name, nd in n0.items():
        c.count('elements_compared_unchanged')
        if n2.get(name) != nd:
            c.violate('other_node_changed', 'node %s changed: %s' % (name, _first_diff(nd, n2.get(name))), **wit)
            break
    for name, ld in l0.items():
        if name == pipe['name']:
            continue
        c.count('elements_compared_unchanged')
        if l2.get(name) != ld:
            c.violate('other_link_changed', 'link %s changed: %s' % (name, _first_diff(ld, l2.get(name))), **wit)
            break
    for key in ('options', 'patterns', 'curves', 'sources', 'controls'):
        if before.get(key) != d2.get(key):
            c.violate('other_section_changed', 'section %s changed: %s' % (key, _first_diff(before.get(key), d2.get(key))), **wit)
    extra_n = sorted(set(n2) - set(n0))
    extra_l = sorted(set(l2) - set(l0))
    if extra_n != sorted(newj) or extra_l != ['NEWPIPE']:
        c.violate('unexpected_new_elements', 'new nodes %s, new links %s' % (extra_n, extra_l), **wit)
        return
    old, new = l2[pipe['name']], l2['NEWPIPE']
    L = pipe['length']
    tot0 = sum(x['length'] for x in before['links'] if x['link_type'] == 'Pipe')
    tot2 = sum(x['length'] for x in d2['links'] if x['link_type'] == 'Pipe')
    if abs(tot0 - tot2) > 1e-9 * tot0:
        c.violate('total_length_changed', 'total pipe length %.9g -> %.9g' % (tot0, tot2), **wit)
    first, second = (old, new) if at_end else (new, old)     # first = piece at the original start node
    if abs(first['length'] - frac * L) > 1e-9 * L or abs(second['length'] - (1 - frac) * L) > 1e-9 * L:
        c.violate('piece_lengths_wrong', 'pieces %.9g + %.9g, expected %.9g + %.9g (fraction %s of %s from the start node)' % (
            first['length'], second['length'], frac * L, (1 - frac) * L, frac, L), **wit)
    if first['start_node_name'] != pipe['start'] or second['end_node_name'] != pipe['end'] or \
            first['end_node_name'] != newj[0 if at_end else -1] or second['start_node_name'] != newj[-1 if at_end else 0]:
        c.violate('connectivity_wrong', 'pieces run %s->%s and %s->%s' % (first['start_node_name'], first['end_node_name'],
                                                                           second['start_node_name'], second['end_node_name']), **wit)
    if new.get('check_valve'):
        c.violate('new_pipe_has_check_valve', 'the new pipe has check_valve=True (original pipe check_valve=%s)' % pipe['cv'], **wit)
    if bool(old.get('check_valve')) != bool(pipe['cv']):
        c.violate('original_pipe_check_valve_changed', 'original pipe check_valve %s -> %s' % (pipe['cv'], old.get('check_valve')), **wit)
    for k in ('diameter', 'roughness', 'initial_status'):
        if new.get(k) != l0[pipe['name']].get(k) or old.get(k) != l0[pipe['name']].get(k):
            c.violate('piece_attribute_wrong', '%s: original %r, kept piece %r, new piece %r' % (k, l0[pipe['name']].get(k), old.get(k), new.get(k)), **wit)
    # geometry
    sn, en = n0[pipe['start']], n0[pipe['end']]
    poly = [tuple(sn['coordinates'])] + [tuple(v) for v in (pipe.get('vertices') or [])] + [tuple(en['coordinates'])]
    want_xy, plen = polyline_point(poly, frac)
    for nm in newj:
        j = n2[nm]
        xy = tuple(j['coordinates'])
        if math.dist(xy, want_xy) > 1e-6 * max(1.0, plen):
            c.violate('new_junction_coordinates_wrong', 'junction %s at %s, the point at fraction %s of the pipe path is %s' % (nm, xy, frac, want_xy), **wit)
        if sn['node_type'] == 'Reservoir':
            want_e = en.get('elevation')
        elif en['node_type'] == 'Reservoir':
            want_e = sn.get('elevation')
        else:
            want_e = sn['elevation'] + (en['elevation'] - sn['elevation']) * frac
        if want_e is not None and abs(j['elevation'] - want_e) > 1e-9 * max(1.0, abs(want_e)):
            c.violate('new_junction_elevation_wrong', 'junction %s elevation %.9g, interpolation gives %.9g' % (nm, j['elevation'], want_e), **wit)
        dl = j.get('demand_timeseries_list') or []
        if any(abs(x.get('base_val') or 0) > 0 for x in dl):
            c.violate('new_junction_has_demand', 'junction %s has demand %s' % (nm, dl), **wit)
    v_all = [tuple(v) for v in first.get('vertices') or []] + [tuple(v) for v in second.get('vertices') or []]
    orig_v = [tuple(v) for v in (pipe.get('vertices') or [])]
    if v_all != orig_v:
        on_split = [v for v in orig_v if math.dist(v, want_xy) <= 1e-9 * max(1.0, plen)]
        if [v for v in orig_v if v not in on_split] != [v for v in v_all if v not in on_split]:
            c.violate('vertices_not_preserved', 'vertices %s became %s + %s' % (orig_v, first.get('vertices'), second.get('vertices')), **wit)
    elif orig_v:
        # the junction must lie between the two groups along the path
        path1 = [poly[0]] + [tuple(v) for v in first.get('vertices') or []] + [want_xy]
        len1 = sum(math.dist(a, b) for a, b in zip(path1, path1[1:]))
        if abs(len1 - frac * plen) > 1e-6 * max(1.0, plen):
            c.violate('vertices_on_wrong_piece', 'path length of the first piece %.9g, expected %.9g of %.9g' % (len1, frac * plen, plen), **wit)
    # hydraulics of a split
    if sim_before is not None and not c.violations:
        tr2 = simobs.run_wntr(wn2, deep=False)
        if not simobs.converged(tr2):
            c.count('split_sim_failed')
        else:
            c.count('split_hydraulics_compared')
            r0, r2 = sim_before, tr2.results
            H0, H2 = r0.node['head'], r2.node['head']
            Q0, Q2 = r0.link['flowrate'], r2.link['flowrate']
            worst = None
            if list(H0.index) != list(H2.index):
                c.violate('split_changes_hydraulics', 'report times differ: %s vs %s' % (list(H0.index)[:5], list(H2.index)[:5]), **wit)
            else:
                for n in H0.columns:
                    dmax = float((H0[n] - H2[n]).abs().max())
                    if dmax > 1e-3 + 1e-4 * float(H0[n].abs().max()) and (worst is None or dmax > worst[2]):
                        worst = ('head at node', n, dmax)
                qscale = float(Q0.abs().max().max())
                for l in Q0.columns:
                    dmax = float((Q0[l] - Q2[l]).abs().max())
                    if dmax > 1e-5 + 1e-3 * qscale and (worst is None or worst[0] != 'head at node'):
                        worst = ('flow in link', l, dmax)
                if worst is None:
                    dmax = float((Q0[pipe['name']] - Q2['NEWPIPE']).abs().max())
                    if dmax > 1e-5 + 1e-3 * qscale:
                        worst = ('flow in the new pipe vs the original pipe', 'NEWPIPE', dmax)
                if worst is not None and pipe['minor_loss'] == 0:
                    # a tiny tank integrated with explicit Euler steps multiplies the 1e-6 solver noise between two independently
                    # solved models by one to two orders of magnitude per step: a difference that GROWS out of noise step by step
                    # (first step above tolerance <= 300 x the previous step's difference) says nothing about the split
                    import numpy as np
                    hd = np.abs(H0.values - H2[list(H0.columns)].values).max(axis=1)
                    over = np.where(hd > 1e-3)[0]
                    if len(over):
                        k_ = int(over[0])
                        prev_ = float(hd[k_ - 1]) if k_ > 0 else 0.0
                        if k_ > 0 and hd[k_] <= 300.0 * max(prev_, 5e-6):
                            c.count('amplified_noise_cases')
                            c.inconclusive('amplified_solver_noise')
                            return
                if worst is not None:
                    kind = 'split_changes_hydraulics'
                    if pipe['minor_loss'] > 0:
                        # mechanism test: the documented copy of the minor loss onto the new piece doubles it;
                        # with the copy removed the hydraulics must be back to the original
                        wn3 = copy.deepcopy(wn2)
                        wn3.reset_initial_values()
                        wn3.get_link('NEWPIPE').minor_loss = 0.0
                        tr3 = simobs.run_wntr(wn3, deep=False)
                        if simobs.converged(tr3):
                            H3, Q3 = tr3.results.node['head'], tr3.results.link['flowrate']
                            same = all(float((H0[n] - H3[n]).abs().max()) <= 1e-3 + 1e-4 * float(H0[n].abs().max()) for n in H0.columns) and \
                                all(float((Q0[l] - Q3[l]).abs().max()) <= 1e-5 + 1e-3 * qscale for l in Q0.columns)
                            if not same:
                                # with a tiny tank in the model the two independently solved runs also differ by amplified solver
                                # noise (see above): the copy of the minor loss is still the mechanism when removing it takes away
                                # at least 85 % of the difference (the rest: a tank-limit event a second earlier or later)
                                import numpy as np
                                orig_ = float(np.abs(H0.values - H2[list(H0.columns)].values).max())
                                resid_ = float(np.abs(H0.values - H3[list(H0.columns)].values).max())
                                if orig_ > 0 and resid_ <= 0.15 * orig_:
                                    same = True
                                    c.count('minor_loss_copy_explains_most_of_the_difference')
                            if same:
                                kind = 'split_changes_hydraulics_minor_loss_on_both_pieces'
                    c.violate(kind, 'after the split %s %s differs by up to %.6g (pipe minor loss %s, check valve %s)' % (
                        worst + (pipe['minor_loss'], pipe['cv'])), **wit)


def _first_diff(a, b, path=''):
    if isinstance(a, dict) and isinstance(b, dict):
        for k in sorted(set(a) | set(b)):
            if a.get(k) != b.get(k):
                return _first_diff(a.get(k), b.get(k), path + '/' + str(k))
    if isinstance(a, list) and isinstance(b, list) and len(a) == len(b):
        for i, (x, y) in enumerate(zip(a, b)):
            if x != y:
                return _first_diff(x, y, '%s[%d]' % (path, i))
    return '%s: %s -> %s' % (path, json.dumps(a, default=str)[:160], json.dumps(b, default=str)[:160])


def run_skel(c, rng):
    import wntr
    spec = make_network(rng, c.tier, True)
    if rng.random() < 0.4:
        # inflow points: junctions with a negative base demand (EPANET and WNTR allow them)
        for j in spec['junctions']:
            if j['demands'] and rng.random() < 0.25:
                d = rng.choice(j['demands'])
                d['base'] = -abs(d['base']) * rng.choice([0.2, 0.5, 1.0]) if d['base'] else -1e-4
                c.count('negative_demand_entries')
    wn = gnet.build(spec)
    diams = sorted(set(p['diameter'] for p in spec['pipes']))
    thr = rng.choice(diams + [diams[-1] + 1, 0.0, (diams[0] + diams[-1]) / 2])
    flags = dict(branch_trim=rng.random() < 0.8, series_pipe_merge=rng.random() < 0.8, parallel_pipe_merge=rng.random() < 0.8)
    use_epanet = rng.random() < 0.3
    ret_copy = rng.random() < 0.7
    pex = [p['name'] for p in spec['pipes'] if rng.random() < 0.1]
    jex = [j['name'] for j in spec['junctions'] if rng.random() < 0.1]
    max_cycles = rng.choice([None, None, 1, 2])
    wit = {'spec': spec, 'threshold': thr, 'flags': flags, 'use_epanet': use_epanet, 'return_copy': ret_copy, 'pipes_to_exclude': pex,
           'junctions_to_exclude': jex, 'max_cycles': max_cycles}
    c.count('skeletonizations')
    c.count('return_copy_true' if ret_copy else 'return_copy_false')
    before = model_dict(wn)
    keep_nodes = set(n for n, o in wn.nodes() if o.node_type != 'Junction') | set(jex)
    keep_links = set(n for n, o in wn.links() if o.link_type != 'Pipe') | set(pex)
    rn, rl = required_by_controls(spec)       # from the spec: the model's own requires() is part of what is under test
    keep_nodes |= rn
    keep_links |= rl
    if any(cs['kind'] == 'rule' and cs['cond']['kind'] in ('and', 'or') for cs in spec['controls']):
        c.count('skeletonizations_with_compound_rules')
    orig_nodes = list(wn.node_name_list)
    step = wn.options.time.pattern_timestep
    period = 1
    for _, p in wn.patterns():
        n = max(1, len(p.multipliers))
        period = period * n // math.gcd(period, n)
    instants = [k * step for k in range(min(period, 240))]
    dem_before = [total_demand(wn, t) for t in instants]
    try:
        wn2, smap = wntr.morph.skeletonize(wn, thr, return_map=True, return_copy=ret_copy, use_epanet=use_epanet, pipes_to_exclude=pex,
                                           junctions_to_exclude=jex, max_cycles=max_cycles, **flags)
    except Exception as e:
        if use_epanet and type(e).__name__ == 'EpanetException':
            c.inconclusive('epanet_rejects_generated_model')     # the generator is not restricted to EPANET's input rules
            return
        if isinstance(e, KeyError):
            # skeletonize starts with a single-period simulation; if that cannot be solved there is nothing to judge
            chk = gnet.build(spec)         # a fresh model: with return_copy=False the failed attempt has already run on wn itself
            chk.options.time.duration = 0
            trc = simobs.run_wntr(chk, deep=False) if not use_epanet else simobs.run_epanet(chk)
            if not simobs.converged(trc) or 0 not in list(trc.results.node['head'].index):
                c.inconclusive('initial_simulation_of_generated_model_failed')
                return
        c.violate('skeletonize_raised', 'skeletonize raised %s: %s' % (type(e).__name__, e), traceback=traceback.format_exc()[-1500:], **wit)
        return
    if ret_copy:
        after_in = model_dict(wn)
        if wn2 is wn:
            c.violate('return_copy_returned_input', 'skeletonize(return_copy=True) returned the input object', **wit)
        if after_in != before:
            c.violate('input_model_modified', 'skeletonize(return_copy=True) changed the input model: %s' % _first_diff(before, after_in), **wit)
    removed = [n for n in orig_nodes if n not in wn2.node_name_list]
    c.count('junctions_removed_by_skeletonize', len(removed))
    c.set_sig('skel', gnet.signature(spec), thr, tuple(sorted(flags.items())), use_epanet, bool(pex), bool(jex), max_cycles, len(removed))
    c.nontrivial = len(removed) > 0
    c.sample = {'operation': 'skeletonize', 'threshold': thr, 'flags': flags, 'removed_junctions': removed[:10], 'network': gnet.signature(spec)}
    lost_n = sorted(keep_nodes - set(wn2.node_name_list))
    lost_l = sorted(keep_links - set(wn2.link_name_list))
    if lost_n or lost_l:
        c.violate('skeletonize_removed_protected_element', 'removed nodes %s / links %s that are tanks, reservoirs, pumps, valves, control-referenced or excluded' % (lost_n, lost_l), **wit)
    dem_after = [total_demand(wn2, t) for t in instants]
    for t, a, b in zip(instants, dem_before, dem_after):
        c.count('demand_instants_compared')
        if abs(a - b) > 1e-12 + 1e-9 * abs(a):
            c.violate('skeletonize_demand_not_conserved', 'total demand at pattern instant %s s: %.9g before, %.9g after' % (t, a, b), **wit)
            break
    # the map: every original node in exactly one retained node's list
    seen = {}
    for k, lst in smap.items():
        if lst and k not in wn2.node_name_list:
            c.violate('skeleton_map_key_not_retained', 'map entry %s -> %s but %s is not in the skeletonized model' % (k, lst, k), **wit)
        for n in lst:
            seen.setdefault(n, []).append(k)
    missing = [n for n in orig_nodes if n not in seen]
    multi = {n: ks for n, ks in seen.items() if len(ks) > 1}
    if missing or multi:
        c.violate('skeleton_map_not_a_partition', 'original nodes missing from the map: %s; listed more than once: %s' % (missing[:8], dict(list(multi.items())[:5])), **wit)
    for n in wn2.node_name_list:
        if n not in (smap.get(n) or []):
            c.violate('skeleton_map_retained_node_not_in_own_list', 'retained node %s is not in its own list %s' % (n, smap.get(n)), **wit)
            break
    for k in smap:
        if k not in orig_nodes:
            c.violate('skeleton_map_unknown_key', 'map has key %s which is not an original node' % k, **wit)
    # remaining links must join existing nodes
    for ln, l in wn2.links():
        if l.start_node_name not in wn2.node_name_list or l.end_node_name not in wn2.node_name_list:
            c.violate('skeleton_dangling_link', 'link %s joins %s-%s, not both in the model' % (ln, l.start_node_name, l.end_node_name), **wit)
            break
