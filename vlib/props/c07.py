"""C07 - pressure-dependent demand follows the documented pressure-demand curve.

Two monitors.
 * model level: the hydraulic model of a PDD network is built by the real code; for every junction
   the head variable is swept from far below Pmin to far above Preq (dense around Pmin, Pmin+delta,
   Preq-delta, Preq) with the demand variable at 0, and the `pdd` row is evaluated through the
   compiled evaluator: f(p) = -residual / D.
 * system level: reservoir-pipe-junction rigs whose source head is swept, and random PDD networks:
   every reported (pressure, demand, requested demand) of connected junctions.
Oracle: f = 0 at or below Pmin, 1 at or above Preq, ((p-Pmin)/(Preq-Pmin))^e between the smoothing
bands, inside a band between the band's end values, non-decreasing and continuous over the whole sweep;
per-junction Pmin/Preq/exponent override the global options for that junction only.
"""
import math

from vlib.gen import net as gnet
from vlib.ref import hyd as ref
from vlib import simobs

ID = 'C07'
LEVEL = 'exploration'
DELTA = 0.05       # documented width of the smoothing bands (m)
RULE = ('(a) model-level sweeps: random PDD networks, global Pmin in [0,10], Preq - Pmin in [0.2, 40] (and a bucket of narrow ranges '
        '< 2 x band width), exponent in (0,1], per-junction overrides of any subset of the three parameters, requested demand incl. 0; '
        '~230 pressures per junction from Pmin-50 to Preq+50 dense around the four breakpoints; (b) system level: single-junction rigs '
        'sweeping the reservoir head through the whole curve and random PDD networks (every connected junction x reported step); '
        'signature = (exponent class, override pattern, range class, network class); non-trivial = exponent != 0.5 or a per-junction '
        'override or a reported pressure strictly inside (Pmin, Preq)')
ASSUMPTIONS = ['smoothing bands are [Pmin, Pmin+0.05] and [Preq-0.05, Preq]; the delivered fraction is judged to 1e-7 (the band cubics are evaluated in absolute pressure, rounding ~1e-9) + the documented 1e-11 slope',
               'continuity: |f(p+h) - f(p)| <= 3 x (largest slope of the ideal curve on the step, incl. the band chords) x h + 1e-9',
               'ranges narrower than two band widths make the bands overlap; they are generated in a separate bucket']
FLOORS = {'quick': {'conclusive': 100, 'distinct_nontrivial': 50,
                    'counters': {'junction_sweeps': 130, 'sweep_points': 25000, 'points_below_pmin': 4000, 'points_in_lower_band': 2000,
                                 'points_on_power_law': 12000, 'points_in_upper_band': 2000, 'points_above_preq': 3500,
                                 'override_junctions': 60, 'exponent_not_half': 100, 'zero_demand_junctions': 20,
                                 'system_points': 400, 'system_points_partial': 300, 'rig_sweeps': 10}},
          'thorough': {'conclusive': 1500, 'distinct_nontrivial': 700,
                       'counters': {'junction_sweeps': 2000, 'sweep_points': 370000, 'points_below_pmin': 60000,
                                    'points_in_lower_band': 30000, 'points_on_power_law': 180000, 'points_in_upper_band': 30000,
                                    'points_above_preq': 50000, 'override_junctions': 900, 'exponent_not_half': 1500,
                                    'zero_demand_junctions': 300, 'system_points': 6000, 'system_points_partial': 4500, 'rig_sweeps': 150}}}
CASE_TIMEOUT = {'quick': 180, 'thorough': 400}


# appended to RULE in the evidence (vlib/runner.py)
RULE_ADDENDUM = "Added in round 5: controls and rules that change a junction's minimum / required pressure during the run (aimed, after a scouting run, at the pressure the junction sees). Round 6: isolation schedules in 40 % of the network runs, the first parameter control fires while its junction is isolated."

def n_cases(tier):
    return 200 if tier == 'quick' else 12000


def ideal(p, pmin, preq, e):
    if p <= pmin:
        return 0.0
    if p >= preq:
        return 1.0
    return ((p - pmin) / (preq - pmin)) ** e


def sweep_points(rng, pmin, preq):
    pts = set()
    for x in (pmin - 50, pmin - 5, pmin - 1, pmin - 0.1, preq + 0.1, preq + 1, preq + 5, preq + 50):
        pts.add(x)
    for b in (pmin, pmin + DELTA, preq - DELTA, preq):
        for k in range(-20, 21):
            pts.add(b + k * DELTA / 10.0)
        for k in (-3, -2, -1, 0, 1, 2, 3):
            pts.add(b + k * 1e-6)
    n = 60
    for k in range(n + 1):
        pts.add(pmin + (preq - pmin) * k / n)
    for _ in range(20):
        pts.add(rng.uniform(pmin - 2, preq + 2))
    return sorted(pts)


def params_of(spec, j):
    o = spec['options']
    return (j.get('minimum_pressure', o['minimum_pressure']), j.get('required_pressure', o['required_pressure']),
            j.get('pressure_exponent', o['pressure_exponent']))


def make_spec(c, rng, narrow):
    spec = gnet.gen_spec(rng, p_pdd=1.0, n_junc=(2, 7) if c.tier == 'quick' else (2, 14), n_tank=(0, 1), n_valve=(0, 1), p_leak=0.0,
                         steps=(3, 8), p_pdd_override=0.0, p_zero_demand=0.2)
    o = spec['options']
    o['demand_model'] = 'PDD'
    o['minimum_pressure'] = rng.choice([0.0, 0.0, gnet._round(rng.uniform(0, 10), 3)])
    rng_w = rng.uniform(0.02, 0.099) if narrow else rng.choice([0.2, 0.5, 2.0, 10.0, 20.0, gnet._round(rng.uniform(0.2, 40), 3)])
    o['required_pressure'] = gnet._round(o['minimum_pressure'] + rng_w, 4)
    o['pressure_exponent'] = rng.choice([0.5, 0.5, 1.0, 0.6, 0.25, gnet._round(rng.uniform(0.1, 1.0), 3)])
    for j in spec['junctions']:
        for k in ('minimum_pressure', 'required_pressure', 'pressure_exponent'):
            j.pop(k, None)
        r = rng.random()
        if r < 0.45:
            which = [k for k in ('min', 'req', 'exp') if rng.random() < 0.55] or ['exp']
            pmn, prq = o['minimum_pressure'], o['required_pressure']
            if 'min' in which:
                pmn = gnet._round(rng.uniform(0, 8), 3)
                j['minimum_pressure'] = pmn
            if 'req' in which or prq - pmn < 0.2:
                prq = gnet._round(pmn + rng.choice([0.3, 1.0, 5.0, 15.0, 30.0]), 3)
                j['required_pressure'] = prq
            if 'exp' in which:
                j['pressure_exponent'] = rng.choice([1.0, 0.5, 0.75, 0.3, gnet._round(rng.uniform(0.1, 1.0), 3)])
    return spec


def check_curve(c, label, pts, fvals, pmin, preq, e, wit, tol=1e-7):
    """pts ascending, fvals = observed f(p)."""
    narrow = preq - pmin < 2 * DELTA
    lo_b, hi_b = pmin + DELTA, preq - DELTA
    f_lo, f_hi = ideal(lo_b, pmin, preq, e), ideal(hi_b, pmin, preq, e)
    prev = None
    for p, f in zip(pts, fvals):
        c.count('sweep_points')
        slope_term = 1e-11 * (abs(p - pmin) + abs(p - preq)) + tol
        if f != f or abs(f) == float('inf'):
            c.violate('pdd_curve_not_finite', '%s: f(%.6f) = %r' % (label, p, f), pressure=p, **wit)
            return
        if p <= pmin:
            c.count('points_below_pmin')
            if abs(f) > slope_term:
                c.violate('pdd_demand_below_pmin', '%s: p = %.6f <= Pmin = %.4f but delivered fraction is %.3e' % (label, p, pmin, f), pressure=p, f=f, **wit)
                return
        elif p >= preq:
            c.count('points_above_preq')
            if abs(f - 1.0) > slope_term:
                # with overlapping bands (Preq < Pmin + band width) the lower-band branch of the row still matches above Preq
                c.violate('pdd_not_full_above_preq_bands_overlap' if narrow and p <= lo_b + 1e-12 else 'pdd_not_full_above_preq',
                          '%s: p = %.6f >= Preq = %.4f but delivered fraction is %.12g' % (label, p, preq, f), pressure=p, f=f, **wit)
                return
        elif not narrow and lo_b <= p <= hi_b:
            c.count('points_on_power_law')
            w = ideal(p, pmin, preq, e)
            if abs(f - w) > tol + 1e-9 * w:
                c.violate('pdd_power_law_wrong', '%s: p = %.6f: delivered fraction %.12g, ((p-Pmin)/(Preq-Pmin))^%s = %.12g' % (label, p, f, e, w),
                          pressure=p, f=f, want=w, **wit)
                return
        elif not narrow and p < lo_b:
            c.count('points_in_lower_band')
            if not (-tol <= f <= f_lo + tol):
                c.violate('pdd_lower_band_out_of_range', '%s: p = %.6f in the lower band: f = %.12g outside [0, %.12g]' % (label, p, f, f_lo), pressure=p, f=f, **wit)
                return
        elif not narrow:
            c.count('points_in_upper_band')
            if not (f_hi - tol <= f <= 1.0 + tol):
                c.violate('pdd_upper_band_out_of_range', '%s: p = %.6f in the upper band: f = %.12g outside [%.12g, 1]' % (label, p, f, f_hi), pressure=p, f=f, **wit)
                return
        else:
            if not (-tol <= f <= 1.0 + tol):
                c.violate('pdd_out_of_range_narrow', '%s: p = %.6f: f = %.12g outside [0, 1]' % (label, p, f), pressure=p, f=f, **wit)
                return
        if prev is not None:
            p0, f0 = prev
            h = p - p0
            if f < f0 - tol:
                kind = 'pdd_decreasing_bands_overlap' if narrow else 'pdd_decreasing'
                c.violate(kind, '%s: delivered fraction decreases from f(%.6f) = %.9g to f(%.6f) = %.9g' % (label, p0, f0, p, f), pressure=p, **wit)
                return
            # largest slope the ideal curve (with chord-like bands) can have on [p0, p]
            s = 0.0
            if p > pmin and p0 < preq:
                a, b = max(p0, pmin), min(p, preq)
                xs = [a, b, (a + b) / 2]
                for x in xs:
                    x_ = min(max(x, lo_b if not narrow else pmin + 1e-9), max(hi_b, lo_b))
                    s = max(s, e * ((x_ - pmin) / (preq - pmin)) ** (e - 1) / (preq - pmin) if x_ > pmin else 0.0)
                s = max(s, f_lo / DELTA if not narrow else 1.0 / max(preq - pmin, 1e-9), (1.0 - f_hi) / DELTA if not narrow else 0.0)
            if abs(f - f0) > 3.0 * s * h + 1e-7:
                kind = 'pdd_jump_bands_overlap' if narrow else 'pdd_jump'
                c.violate(kind, '%s: jump from f(%.7f) = %.9g to f(%.7f) = %.9g (step %.3g, steepest ideal slope %.4g)' % (label, p0, f0, p, f, h, s),
                          pressure=p, **wit)
                return
        prev = (p, f)


def run_case(c, rng):
    import numpy as np
    from wntr.sim.hydraulics import create_hydraulic_model
    mode = ['model', 'model', 'model', 'rig', 'network'][c.index % 5]
    narrow = (c.index % 11 == 10)
    if mode == 'rig':
        return run_rig(c, rng)
    spec = make_spec(c, rng, narrow)
    wn = gnet.build(spec)
    o = spec['options']
    over = sum(1 for j in spec['junctions'] if any(k in j for k in ('minimum_pressure', 'required_pressure', 'pressure_exponent')))
    c.set_sig(mode, gnet.signature(spec), o['pressure_exponent'], o['minimum_pressure'], o['required_pressure'], over, narrow)
    c.sample = {'mode': mode, 'options': {k: o[k] for k in ('minimum_pressure', 'required_pressure', 'pressure_exponent')},
                'overrides': [{k: j[k] for k in j if k in ('name', 'minimum_pressure', 'required_pressure', 'pressure_exponent')} for j in spec['junctions']][:6]}
    if mode == 'network':
        return run_network(c, rng, spec, wn, narrow)
    try:
        m, upd = create_hydraulic_model(wn)
        m.set_structure()
    except ValueError as e:
        if 'smoothing delta' in str(e):
            c.inconclusive('configuration_refused_required_pressure_not_above_band_width')
            return
        raise
    except Exception as e:
        import traceback
        if narrow and isinstance(e, (TypeError, ZeroDivisionError)):      # power law evaluated at or below Pmin: complex number or 0 ** negative
            c.violate('pdd_bands_overlap_build_failed', 'create_hydraulic_model raised %s: %s for Preq - Pmin narrower than the band width (options %s)' % (
                type(e).__name__, str(e)[:120], {k: o[k] for k in ('minimum_pressure', 'required_pressure', 'pressure_exponent')}),
                traceback=traceback.format_exc()[-1200:], spec=spec)
            return
        c.violate('pdd_model_build_failed', 'create_hydraulic_model raised %s: %s' % (type(e).__name__, e), traceback=traceback.format_exc()[-1500:], spec=spec)
        return
    for j in spec['junctions']:
        name = j['name']
        pmin, preq, e = params_of(spec, j)
        D = float(m.expected_demand[name].value)
        is_over = any(k in j for k in ('minimum_pressure', 'required_pressure', 'pressure_exponent'))
        wit = {'junction': name, 'pmin': pmin, 'preq': preq, 'exponent': e, 'requested_demand': D, 'override': is_over, 'spec': spec}
        pts = sweep_points(rng, pmin, preq)
        row = m.pdd[name].index
        hv, dv = m.head[name], m.demand[name]
        dv.value = 0.0
        res = []
        for p in pts:
            hv.value = j['elevation'] + p
            res.append(float(m.evaluate_residuals()[row]))
        c.count('junction_sweeps')
        if is_over:
            c.count('override_junctions')
        if e != 0.5:
            c.count('exponent_not_half')
        if e != 0.5 or is_over:
            c.nontrivial = True
        if D == 0.0:
            c.count('zero_demand_junctions')
            if any(abs(r) > 1e-12 for r in res):
                c.violate('pdd_zero_demand_row_nonzero', 'junction %s requests 0 but its pdd row evaluates to %s' % (name, max(res, key=abs)), **wit)
                continue
            # the requested demand is a parameter that is refreshed before every solve (patterns): a junction that requests nothing
            # now must follow the curve as soon as it requests something - give the parameter a value and sweep the same row again
            m.expected_demand[name].value = 1.0
            res = []
            for p in pts:
                hv.value = j['elevation'] + p
                res.append(float(m.evaluate_residuals()[row]))
            m.expected_demand[name].value = 0.0
            c.count('zero_demand_rows_swept_with_unit_demand')
            D = 1.0
            wit = dict(wit, requested_demand='0 when the model was built, 1.0 for the sweep')
        f = [-r / D for r in res]
        kind_before = len(c.violations)
        check_curve(c, 'junction %s (Pmin %.4g, Preq %.4g, exponent %s, %s)' % (name, pmin, preq, e, 'override' if is_over else 'global'),
                    pts, f, pmin, preq, e, wit)
        if len(c.violations) > kind_before and e != 0.5 and not narrow:
            # mechanism label: the band polynomials are built for exponent 0.5
            v = c.violations[-1]
            if v['kind'] in ('pdd_jump', 'pdd_decreasing', 'pdd_lower_band_out_of_range', 'pdd_upper_band_out_of_range'):
                f_half = ideal(pmin + DELTA, pmin, preq, 0.5)
                i_lo = min(range(len(pts)), key=lambda i: abs(pts[i] - (pmin + DELTA)))
                if abs(f[i_lo] - f_half) < 1e-6 and abs(f[i_lo] - ideal(pmin + DELTA, pmin, preq, e)) > 1e-6:
                    v['kind'] = 'pdd_band_polynomial_uses_exponent_half'
        if len(c.violations) >= 3:
            break


def run_network(c, rng, spec, wn, narrow):
    # controls and rules that change a junction's minimum / required pressure while the run is under way (the hydraulic model
    # registers an updater for both attributes); None falls back to the global option
    changes = []
    # a junction cut off from every source for a while and re-connected (side stream seeded by the case): a parameter control that
    # fires while its junction is isolated must be in force when the junction comes back
    import random as _random
    side = _random.Random(c.index * 32452843 + len(spec['junctions']) * 7 + len(spec['pipes']))
    iso = []
    if not narrow and side.random() < 0.4:
        iso = [x for x in gnet.add_isolation_schedule(spec, side, with_leak=0.0)
               if x['open'] is not None and x['open'] <= spec['options']['duration'] and x['open'] - x['close'] >= 2]
        wn = gnet.build(spec)
        if iso:
            c.count('runs_with_isolation_schedule')
    if not narrow and (rng.random() < 0.6 or iso):
        from wntr.network import controls as ctl
        o_ = spec['options']
        hyd_, dur_ = o_['hydraulic_timestep'], o_['duration']
        # a first run tells which pressures to expect, so that the new parameters can be put where they matter (partial delivery)
        pre = simobs.run_wntr(wn, deep=False)
        if not simobs.converged(pre):
            c.inconclusive('sim_failed')
            return
        P0 = pre.results.node['pressure']
        wn.reset_initial_values()
        for k in range(rng.randint(1, 3)):
            j = rng.choice(spec['junctions'])
            during = None
            if iso and k == 0:
                j = [x for x in spec['junctions'] if x['name'] == iso[0]['junction']][0]
                during = iso[0]['close'] + max(1, (iso[0]['open'] - iso[0]['close']) // 2)
            pmin0, preq0, _ = params_of(spec, j)
            attr = rng.choice(['required_pressure', 'required_pressure', 'minimum_pressure'])
            p_seen = float(P0[j['name']].mean())
            if attr == 'required_pressure':
                val = rng.choice([gnet._round(preq0 * rng.choice([0.6, 1.5, 2.5]) + 0.5, 4), None if 'required_pressure' in j else gnet._round(preq0 + 7.0, 4)])
                if p_seen > pmin0 + 1.0 and rng.random() < 0.7:
                    val = gnet._round(p_seen * rng.choice([1.2, 1.6, 2.5]), 4)       # above the pressure the junction sees
                if val is not None and val < pmin0 + 0.2:
                    val = gnet._round(pmin0 + 1.0, 4)
            else:
                val = gnet._round(max(0.0, min(pmin0 + rng.choice([-2.0, 1.0, 3.0]), preq0 - 0.2)), 4)
                if pmin0 + 0.5 < p_seen < preq0 - 0.5 and rng.random() < 0.7:
                    val = gnet._round(max(0.0, min(p_seen * rng.choice([0.5, 0.8]), preq0 - 0.2)), 4)
            if any(ch['junction'] == j['name'] for ch in changes):
                continue        # one change per junction keeps the expected parameters unambiguous
            t_ = hyd_ * rng.randint(1, max(1, dur_ // hyd_)) + rng.choice([0, 0, 0, hyd_ // 2])
            if during is not None:
                t_ = during
                c.count('parameter_controls_fired_while_isolated')
            act = ctl.ControlAction(wn.get_node(j['name']), attr, val)
            if rng.random() < 0.5 or during is not None:
                wn.add_control('pdd_change_%d' % k, ctl.Control(ctl.SimTimeCondition(wn, '=', t_), act))
            else:
                wn.add_control('pdd_change_%d' % k, ctl.Rule(ctl.SimTimeCondition(wn, '>=', t_), [act], priority=3))
                t_ = -(-t_ // o_['rule_timestep']) * o_['rule_timestep']      # rules act at multiples of the rule step
            changes.append({'junction': j['name'], 'attr': attr, 'value': val, 'time': t_})
        if changes:
            c.count('runs_with_pdd_parameter_controls')
    tr = simobs.run_wntr(wn, deep=False)
    if not simobs.converged(tr):
        c.inconclusive('sim_failed')
        return
    res = tr.results
    P, Dm, S = res.node['pressure'], res.node['demand'], res.link['status']
    topo = ref.Topo(wn)
    o = spec['options']
    pats = spec['patterns']
    for i, t in enumerate(P.index):
        closed = set(ln for ln in topo.links if S[ln].values[i] == 0)
        conn = topo.connected_nodes(closed)
        for j in spec['junctions']:
            if j['name'] not in conn:
                continue
            pmin, preq, e = params_of(spec, j)
            ch = [x for x in changes if x['junction'] == j['name']]
            if ch:
                if t >= ch[0]['time']:
                    v_ = ch[0]['value']
                    if ch[0]['attr'] == 'required_pressure':
                        preq = o['required_pressure'] if v_ is None else v_
                    else:
                        pmin = v_
                    c.count('system_points_after_parameter_change')
            D = sum(d['base'] * (ref.pattern_mult(pats[d['pattern']], t + o['pattern_start'], o['pattern_timestep'], True, bool(o.get('pattern_interpolation'))) if d['pattern'] else 1.0)
                    for d in j['demands']) * o['demand_multiplier']
            p, d = float(P[j['name']].values[i]), float(Dm[j['name']].values[i])
            c.count('system_points')
            judge_point(c, 'network junction %s t=%s' % (j['name'], t), p, d, D, pmin, preq, e, narrow,
                        {'junction': j['name'], 't': t, 'pmin': pmin, 'preq': preq, 'exponent': e, 'spec': spec})
            if len(c.violations) >= 3:
                return


def judge_point(c, label, p, d, D, pmin, preq, e, narrow, wit):
    tol = 1e-6 + 1e-9 * abs(D)     # the pdd row is solved to the Newton tolerance
    if pmin < p < preq:
        c.count('system_points_partial')
        c.nontrivial = True
    if p <= pmin:
        lo = hi = 0.0
    elif p >= preq:
        lo = hi = D
    elif narrow:
        lo, hi = 0.0, D
    elif pmin + DELTA <= p <= preq - DELTA:
        lo = hi = D * ideal(p, pmin, preq, e)
    elif p < pmin + DELTA:
        lo, hi = 0.0, D * ideal(pmin + DELTA, pmin, preq, e)
    else:
        lo, hi = D * ideal(preq - DELTA, pmin, preq, e), D
    if not (min(lo, hi) - tol <= d <= max(lo, hi) + tol):
        kind = 'pdd_reported_demand_off_curve'
        if e != 0.5 and not (pmin + DELTA <= p <= preq - DELTA):
            kind = 'pdd_reported_demand_off_curve_in_band'
        c.violate(kind, '%s: pressure %.6f, delivered %.9g, requested %.9g; curve (Pmin %.4g, Preq %.4g, exponent %s) allows [%.9g, %.9g]' % (
            label, p, d, D, pmin, preq, e, lo, hi), pressure=p, demand=d, requested=D, **wit)


def run_rig(c, rng):
    """R(head H) -> pipe -> J(elev z, demand D): sweep H so that the junction pressure runs through the whole curve."""
    import wntr
    pmin = rng.choice([0.0, gnet._round(rng.uniform(0, 8), 3)])
    preq = gnet._round(pmin + rng.choice([0.3, 1.0, 5.0, 20.0, gnet._round(rng.uniform(0.2, 30), 3)]), 4)
    e = rng.choice([0.5, 1.0, 0.7, 0.3, gnet._round(rng.uniform(0.1, 1.0), 3)])
    per_junction = rng.random() < 0.5
    z = gnet._round(rng.uniform(0, 50), 3)
    D = gnet._round(rng.uniform(0.001, 0.02), 4)
    wn = wntr.network.WaterNetworkModel()
    wn.options.hydraulic.demand_model = 'PDD'
    gl = (pmin, preq, e) if not per_junction else (gnet._round(pmin + 1.0, 3), gnet._round(preq + 7.0, 3), 0.5)
    wn.options.hydraulic.minimum_pressure, wn.options.hydraulic.required_pressure, wn.options.hydraulic.pressure_exponent = gl
    wn.options.time.duration = 0
    wn.add_reservoir('R', base_head=z + preq + 5)
    wn.add_junction('J', base_demand=D, elevation=z)
    wn.add_junction('K', base_demand=D / 2, elevation=z)       # a second junction that keeps the global parameters
    wn.add_pipe('P', 'R', 'J', length=50.0, diameter=0.3, roughness=120)
    wn.add_pipe('P2', 'J', 'K', length=50.0, diameter=0.3, roughness=120)
    if per_junction:
        j = wn.get_node('J')
        j.minimum_pressure, j.required_pressure, j.pressure_exponent = pmin, preq, e
    c.set_sig('rig', pmin, preq, e, per_junction)
    c.sample = {'mode': 'rig', 'pmin': pmin, 'preq': preq, 'exponent': e, 'per_junction': per_junction, 'global': gl}
    c.count('rig_sweeps')
    if e != 0.5:
        c.count('exponent_not_half')
        c.nontrivial = True
    if per_junction:
        c.count('override_junctions')
        c.nontrivial = True
    heads = sorted(set([z + pmin - 3, z + pmin - 0.01, z + pmin + 0.025, z + preq + 3] +
                       [z + pmin + (preq - pmin) * k / 14.0 for k in range(15)] + [z + preq - 0.025, z + preq + 0.3]))
    last = None
    for H in heads:
        wn.get_node('R').base_head = H
        wn.reset_initial_values()
        tr = simobs.run_wntr(wn, deep=False)
        if not simobs.converged(tr):
            c.count('rig_sim_failed')
            continue
        p = float(tr.results.node['pressure'].loc[0, 'J'])
        d = float(tr.results.node['demand'].loc[0, 'J'])
        c.count('system_points')
        wit = {'reservoir_head': H, 'pmin': pmin, 'preq': preq, 'exponent': e, 'per_junction': per_junction, 'global': gl, 'elevation': z, 'D': D}
        judge_point(c, 'rig junction J (reservoir head %.4f)' % H, p, d, D, pmin, preq, e, False, wit)
        pk = float(tr.results.node['pressure'].loc[0, 'K'])
        dk = float(tr.results.node['demand'].loc[0, 'K'])
        judge_point(c, 'rig junction K with global parameters (reservoir head %.4f)' % H, pk, dk, D / 2, gl[0], gl[1], gl[2], False, wit)
        if last is not None and d < last[1] - 1e-6 and p > last[0]:
            c.violate('pdd_decreasing', 'rig: delivered demand fell from %.9g (p = %.5f) to %.9g (p = %.5f)' % (last[1], last[0], d, p), **wit)
        last = (p, d)
        if len(c.violations) >= 3:
            return
