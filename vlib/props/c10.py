"""C10 - pausing, pickling and restarting a simulation equals running it uninterrupted.

History oracle: the concatenated result tables of the parts are compared with the tables of one
uninterrupted run of an identically built model (index, heads, demands, flows, statuses).
"""
import pickle

from vlib.gen import net as gnet, ctrlgen
from vlib import simobs

ID = 'C10'
LEVEL = 'exploration'
RULE = ('seeded random networks with tanks, time/clock/tank-level/pressure controls, valve-setting controls, rules with ELSE, '
        'leaks and isolation schedules; 1-3 pause points on the hydraulic grid, each with or without a pickle round trip of the '
        'model, a new simulator object per part; plus perturbed example networks; signature = structural class + pause pattern; '
        'non-trivial = the network has a tank or a control/leak event after the first pause')
ASSUMPTIONS = ['numerical tolerance 1e-4 m / 1e-6 m3/s + 1e-5 relative: a continued run restarts Newton from the default initial '
               'point, so the two runs agree only to the solver tolerance',
               'a partial step whose instant differs by <= 2 s between the two runs (tank-level event computed from flows that '
               'agree to solver tolerance) is counted as near_tie, not as a violation',
               'cases in which either run does not converge are inconclusive (C16)']
FLOORS = {'quick': {'conclusive': 70, 'distinct_nontrivial': 60,
                    'counters': {'parts_run': 220, 'pickled_parts': 70, 'rows_compared': 700, 'cases_with_event_after_pause': 65,
                                 'tank_cases': 50, 'near_pause_schedule_cases': 25}},
          'thorough': {'conclusive': 800, 'distinct_nontrivial': 700,
                       'counters': {'parts_run': 2600, 'pickled_parts': 800, 'rows_compared': 8000, 'cases_with_event_after_pause': 800,
                                    'tank_cases': 600, 'near_pause_schedule_cases': 300}}}
CASE_TIMEOUT = {'quick': 180, 'thorough': 400}


# appended to RULE in the evidence (vlib/runner.py)
RULE_ADDENDUM = 'Added in round 4: a whole zone (with a booster pump, made if need be) cut off from every source and re-connected in the first hydraulic step after a pause.'

def n_cases(tier):
    return 240 if tier == 'quick' else 3000


def build_case(c, rng):
    from vlib.props import common
    if c.index % 12 == 11:
        def mk():
            wn, desc = common.perturbed_example(_Replay(rng_state), c.tier, files=['Net1.inp', 'Net3.inp', 'Net1.inp'])
            return wn
        rng_state = rng.getstate()
        wn = mk()
        return mk, {'example': wn.name}, ('example', wn.name, wn.options.time.hydraulic_timestep), wn.num_tanks > 0, None
    spec = gnet.gen_spec(rng, n_tank=(0, 2), steps=(6, 14), p_leak=0.08, n_valve=(0, 1), p_power_pump=0.03,
                         n_junc=(3, 10) if c.tier == 'quick' else (3, 25))
    if spec['valves'] and rng.random() < 0.5:
        spec['valves'][0]['type'] = rng.choice(['TCV', 'TCV', 'PRV', 'FCV'])
        if spec['valves'][0]['type'] == 'TCV':
            spec['valves'][0]['setting'] = rng.choice([2.0, 20.0, 200.0])
            spec['valves'][0]['status'] = 'ACTIVE'
    ctrlgen.add_random_controls(spec, rng, n=(1, 5))
    if rng.random() < 0.3:
        gnet.add_isolation_schedule(spec, rng, with_leak=0.3)
    # events placed right after the pause instants (the restart bookkeeping is what is under test), on a rule grid that need
    # not divide the pause time
    o = spec['options']
    hyd, nsteps = o['hydraulic_timestep'], int(o['duration'] // o['hydraulic_timestep'])
    if nsteps >= 2 and rng.random() < 0.5:
        npause = rng.randint(1, min(3, nsteps - 1))
        spec['pauses'] = [p_ * hyd for p_ in sorted(rng.sample(range(0, nsteps), npause))]
        if hyd >= 120 and rng.random() < 0.7:
            o['rule_timestep'] = rs = rng.choice([x for x in (420, 7 * 60 + 20, hyd // 2 + 60, (2 * hyd) // 5, (2 * hyd) // 7 + 1, 100, 77) if 30 <= x < hyd] or [hyd])
        rs = o['rule_timestep']
        targets = [p_['name'] for p_ in spec['pipes'] if not p_['cv']] + [p_['name'] for p_ in spec['pumps']]
        used = set(cs.get('target') for cs in spec['controls']) | set(a_['target'] for cs in spec['controls'] if cs['kind'] == 'rule' for a_ in cs['then'] + cs.get('else', []))
        free = [t_ for t_ in targets if t_ not in used] or targets
        for ps in spec['pauses']:
            if not free or rng.random() < 0.25:
                continue
            off = rng.choice([0, 1, rs // 2, rs - 1, rs, rs + 1, 2 * rs, hyd // 2])
            name = 'c%d' % (len(spec['controls']) + 1)
            tgt = free.pop(rng.randrange(len(free)))
            if rng.random() < 0.7:
                cs = {'kind': 'rule', 'name': name, 'priority': rng.randint(1, 5),
                      'cond': {'kind': 'simtime', 'op': rng.choice(['>=', '>=', '>', '=']), 'time': ps + off},
                      'then': [{'target': tgt, 'attr': 'status', 'value': 'CLOSED'}]}
            else:
                cs = {'kind': 'time', 'name': name, 'time': ps + off, 'target': tgt, 'attr': 'status', 'value': 'CLOSED'}
            spec['controls'].append(cs)
    # a whole zone (with a booster pump or a valve inside, when there is one) cut off from every source and re-connected in the
    # first hydraulic step after a pause: whatever isolation bookkeeping the paused run leaves on the model meets a new simulator.
    # Side stream seeded by the content, so that the rest of the corpus stays what it was.
    import json as _json
    import random as _random
    import zlib as _zlib
    side = _random.Random(_zlib.crc32(_json.dumps(spec, sort_keys=True, default=str).encode()))
    if nsteps >= 3 and side.random() < 0.4:
        z = gnet.add_zone_isolation(spec, side)
        if z is not None:
            marks = set(spec.get('pauses') or [])
            if z['open'] is not None and side.random() < 0.8:
                marks.add(hyd * ((z['open'] + hyd - 1) // hyd) - hyd)       # the zone comes back inside the first continued step
            if side.random() < 0.4:
                marks.add(hyd * (z['close'] // hyd + 1))                      # paused while the zone is cut off
            marks = sorted(m_ for m_ in marks if 0 <= m_ < o['duration'])[:3]
            if marks:
                spec['pauses'] = marks
    return (lambda: gnet.build(spec)), {'spec': spec}, (gnet.signature(spec),), bool(spec['tanks']), spec


class _Replay(object):
    """A random.Random look-alike restarted from a saved state (so two builds draw the same values)."""
    def __init__(self, state):
        import random
        self._r = random.Random()
        self._r.setstate(state)

    def __getattr__(self, k):
        return getattr(self._r, k)


def run_case(c, rng):
    import wntr
    mk, sample, sig, has_tank, spec = build_case(c, rng)
    wn_full = mk()
    hyd = wn_full.options.time.hydraulic_timestep
    dur = wn_full.options.time.duration
    nsteps = int(dur // hyd)
    if nsteps < 2:
        c.inconclusive('too_short')
        return
    if spec is not None and spec.get('pauses'):
        pauses = list(spec['pauses'])
        c.count('near_pause_schedule_cases')
        if spec.get('zone_isolation'):
            c.count('zone_isolation_cases')
            if any(nm.startswith('PU') for nm in spec['zone_isolation']['links']):
                c.count('zone_isolation_with_pump_cases')
    else:
        npause = rng.randint(1, min(3, nsteps - 1)) if nsteps > 1 else 1
        pauses = sorted(rng.sample(range(0, nsteps), npause))
        pauses = [p * hyd for p in pauses]
    pick = [rng.random() < 0.5 for _ in pauses]
    c.sample = dict({k: (v if k != 'spec' else gnet.signature(v)) for k, v in sample.items()}, pauses=pauses, pickle=pick)
    c.set_sig(*(sig + (len(pauses), tuple(pick))))
    wit = dict(sample=sample, pauses=pauses, pickle=pick)
    wit_wn = wn_full
    full = simobs.run_wntr(wn_full, deep=False)
    if not simobs.converged(full):
        c.inconclusive('sim_failed: full run')
        return
    wn = mk()
    parts = []
    for i, stop in enumerate(pauses + [dur]):
        wn.options.time.duration = stop
        sim = wntr.sim.WNTRSimulator(wn)
        tr = simobs.run_wntr(wn, deep=False, sim=sim)
        c.count('parts_run')
        if tr.exception is not None:
            c.violate('continued_run_exception', 'part %d (to %s s) raised %s: %s' % (i + 1, stop, type(tr.exception).__name__, str(tr.exception)[:200]),
                      traceback=tr.traceback, **wit)
            return
        if not simobs.converged(tr):
            c.inconclusive('sim_failed: part %d' % (i + 1))
            return
        parts.append(tr.results)
        if i < len(pauses) and pick[i]:
            try:
                wn = pickle.loads(pickle.dumps(wn))
            except Exception as e:
                c.violate('pickle_failed', 'pickle round trip of the paused model raised %s: %s' % (type(e).__name__, str(e)[:200]), **wit)
                return
            c.count('pickled_parts')
    compare(c, full.results, parts, pauses, hyd, dict(wit, wn=wn_full))
    if has_tank:
        c.count('tank_cases')
    ev_after = False
    if spec is not None:
        first = pauses[0]
        for cs in spec['controls']:
            t = cs.get('time', cs.get('cond', {}).get('time'))
            if cs['kind'] in ('cond',) or (t is not None and (cs.get('clock') or t > first)) or cs['kind'] == 'rule':
                ev_after = True
        if any((l['start'] > first) or (l['end'] or 0) > first for l in spec['leaks']):
            ev_after = True
    if ev_after:
        c.count('cases_with_event_after_pause')
    c.nontrivial = has_tank or ev_after


def flow_sensitivity(wn, cols, a, b, full, parts):
    """Flow differences explained by the (already bounded) head differences at the end nodes: a link row is solved
    to 1e-6 m, so dq <= (|dh_start| + |dh_end| + 2e-6) / (d headloss / d q).  Pumps/valves: flat 1e-4."""
    import numpy as np
    import pandas as pd
    from vlib.ref import hyd as ref
    import math
    H1 = pd.concat([p.node['head'] for p in parts])
    H0 = full.node['head']
    dH = np.abs(H1.values - H0.values)
    hcol = {n: i for i, n in enumerate(H0.columns)}
    out = np.zeros_like(a)
    for j, ln in enumerate(cols):
        link = wn.get_link(ln)
        dh = dH[:, hcol[link.start_node_name]] + dH[:, hcol[link.end_node_name]] + 2e-6
        if link.link_type == 'Pipe':
            k = ref.hw_k(link.roughness, link.diameter, link.length)
            mk = ref.minor_k(link.minor_loss, link.diameter)
            q = np.minimum(abs(a[:, j]), abs(b[:, j]))
            slope = 1.852 * k * q ** 0.852 + 2 * mk * q + 1e-5 * math.sqrt(k)
            out[:, j] = dh / slope
        else:
            out[:, j] = 1e-4
    return out


def compare(c, full, parts, pauses, hyd, wit):
    import numpy as np
    import pandas as pd
    import math
    # a tank that turns over its whole level range several times within ONE hydraulic step (a 3 m tank on a 0.3 m3/s main: 4 cm per
    # second) makes every event instant, rounded to whole seconds, a chaotic function of the 1e-6 solver noise: nothing can be compared
    wn_ = wit['wn']
    for tn_, tk_ in wn_.tanks():
        span_ = max(tk_.max_level - tk_.min_level, 1e-6)
        if tk_.vol_curve is None:
            area_ = math.pi * tk_.diameter ** 2 / 4.0
        else:
            pts_ = tk_.vol_curve.points
            area_ = max((pts_[-1][1] - pts_[0][1]) / max(pts_[-1][0] - pts_[0][0], 1e-9), 1e-9)
        qmax_ = float(np.abs(full.node['demand'][tn_].values).max())
        if qmax_ * hyd / area_ > 4.0 * span_:
            c.inconclusive('tank_turns_over_its_range_several_times_per_step')
            return
    idx_full = list(full.node['head'].index)
    idx_parts = [list(p.node['head'].index) for p in parts]
    # continuation rules
    for i in range(1, len(parts)):
        if idx_parts[i] and idx_parts[i - 1]:
            if idx_parts[i][0] <= idx_parts[i - 1][-1]:
                c.violate('restart_revisits_time', 'part %d starts at t=%s but part %d already reported t=%s' % (
                    i + 1, idx_parts[i][0], i, idx_parts[i - 1][-1]), **{k: v for k, v in wit.items() if k != 'wn'})
                return
        if idx_parts[i] and idx_parts[i][0] < pauses[i - 1] + 1:
            c.violate('restart_revisits_time', 'part %d starts at t=%s, not after the pause at %s' % (i + 1, idx_parts[i][0], pauses[i - 1]), **{k: v for k, v in wit.items() if k != 'wn'})
            return
    cat_idx = [t for ix in idx_parts for t in ix]
    if cat_idx != idx_full:
        a, b = set(cat_idx), set(idx_full)
        only_a, only_b = sorted(a - b), sorted(b - a)
        near = len(only_a) == len(only_b) and all(abs(x - y) <= 2 for x, y in zip(only_a, only_b)) and len(cat_idx) == len(idx_full)
        if near:
            c.count('near_tie_cases')
            c.inconclusive('near_tie_event_times')
            return
        c.violate('time_index_differs', 'concatenated index differs from the uninterrupted one: only in parts %s, only in full %s' % (
            only_a[:6], only_b[:6]), **{k: v for k, v in wit.items() if k != 'wn'})
        return
    n = len(idx_full)
    c.count('rows_compared', n)
    # A continued run restarts Newton from the default point, so right after a restart the two runs differ by solver-level
    # noise (<~1e-5).  Explicit-Euler tank dynamics can amplify that noise step by step; a defect shows as a *jump*.
    hd = np.abs(pd.concat([p.node['head'] for p in parts]).values - full.node['head'].values).max(axis=1) if n else np.zeros(0)
    over = np.where(hd > 1e-4)[0]
    if len(over):
        k = int(over[0])
        prev = float(hd[k - 1]) if k > 0 else 0.0
        if hd[k] <= 300.0 * max(prev, 5e-6):
            c.count('amplified_noise_cases')
            c.inconclusive('amplified_solver_noise')
            return
    for group, keys, tolabs in (('node', ['head', 'demand', 'pressure', 'leak_demand'], None), ('link', ['flowrate', 'status', 'setting'], None)):
        for key in keys:
            f = getattr(full, group)[key]
            cat = pd.concat([getattr(p, group)[key] for p in parts])
            if list(cat.columns) != list(f.columns):
                c.violate('columns_differ', 'table %s columns differ between continued and full run' % key, **{k: v for k, v in wit.items() if k != 'wn'})
                return
            a, b = np.asarray(cat.values, dtype=float), np.asarray(f.values, dtype=float)
            if key == 'status':
                bad = a != b
                if bad.any():
                    # a check valve / control valve carrying no flow is open or closed by the path Newton took (both states solve the
                    # step): with |q| <= Qtol in both runs the label is below the solver tolerance the two runs agree to
                    wn_ = wit['wn']
                    qa = np.asarray(pd.concat([p.link['flowrate'] for p in parts]).values, dtype=float)
                    qb = np.asarray(full.link['flowrate'].values, dtype=float)
                    internal = np.array([getattr(wn_.get_link(n), 'check_valve', False) or wn_.get_link(n).link_type == 'Valve' for n in f.columns])
                    tie = bad & internal[None, :] & (abs(qa) <= 2.83168e-6) & (abs(qb) <= 2.83168e-6)
                    if tie.any():
                        c.count('zero_flow_status_ties', int(tie.sum()))
                        bad = bad & ~tie
                    if bad.any():
                        # ... and a check valve is only re-opened by a head difference above Htol: a short wide CV pipe passes its
                        # flow at a head loss below Htol, so 'closed with |dh| <= Htol' and 'open with forward flow' both satisfy the
                        # simulator's own status rules
                        Ha = pd.concat([p.node['head'] for p in parts]); Hb = full.node['head']
                        for jj, ln_ in enumerate(f.columns):
                            l_ = wn_.get_link(ln_)
                            if not bad[:, jj].any() or not getattr(l_, 'check_valve', False):
                                continue
                            for ii in np.where(bad[:, jj])[0]:
                                closed_H = Ha if a[ii, jj] == 0 else Hb
                                dh_ = float(closed_H[l_.start_node_name].values[ii]) - float(closed_H[l_.end_node_name].values[ii])
                                q_open = qb[ii, jj] if a[ii, jj] == 0 else qa[ii, jj]
                                if abs(dh_) <= 1.6e-4 and q_open >= -2.83168e-6:
                                    bad[ii, jj] = False
                                    c.count('flat_check_valve_status_ties')
            else:
                tol = (1e-4 if key in ('head', 'pressure', 'setting') else 1e-6) + 1e-5 * np.maximum(abs(a), abs(b))
                if key == 'flowrate':
                    tol = tol + flow_sensitivity(wit['wn'], f.columns, a, b, full, parts)
                elif key == 'demand':
                    src = np.array([wit['wn'].get_node(n).node_type != 'Junction' for n in f.columns])
                    tol = tol + 1e-4 * src[None, :]
                bad = abs(a - b) > tol
            if bad.any():
                i, j = np.argwhere(bad)[0]
                kind_ = 'values_differ' if key != 'status' else 'status_differs'
                # mechanism test (known finding C02.power_pump_turbine_root): an open power pump sitting on the reverse root of its row
                # in one of the two runs at that instant - Newton restarted from the default point can land on either root
                wn_ = wit['wn']
                qa_ = np.asarray(pd.concat([p.link['flowrate'] for p in parts]).values, dtype=float)
                qb_ = np.asarray(full.link['flowrate'].values, dtype=float)
                for jj, ln_ in enumerate(full.link['flowrate'].columns):
                    l_ = wn_.get_link(ln_)
                    if l_.link_type == 'Pump' and getattr(l_, 'pump_type', '') == 'POWER' and min(qa_[:i + 1, jj].min(), qb_[:i + 1, jj].min()) < -2.83168e-6:
                        kind_ = 'differs_power_pump_on_reverse_root'
                c.violate(kind_,
                          '%s[%s] at t=%s: continued %.9g, uninterrupted %.9g (pauses %s, pickle %s)' % (
                              key, f.columns[j], idx_full[i], a[i, j], b[i, j], pauses, wit['pickle']),
                          table=key, column=str(f.columns[j]), t=idx_full[i], continued=float(a[i, j]), full=float(b[i, j]),
                          maxdiff=float(np.nanmax(abs(a - b))), **{k: v for k, v in wit.items() if k != 'wn'})
                return
            c.count('max_diff_e9_' + key, int(min(np.nanmax(abs(a - b)) * 1e9, 1e9)) if key != 'status' and a.size else 0)
