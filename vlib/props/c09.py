"""C09 - junctions cut off from all sources are zeroed; connected ones never are.

Three observation points: (1) `_is_isolated` flags at the save_results hook, (2) the exact arrays
handed to / returned by the C++ graph search, (3) the returned tables.  Reference: BFS over the
links the *results* report as not closed, adjacency from the links' own end-node names.
The same workload is repeated under the ASan+UBSan build of network_isolation.cpp.
"""
from vlib.gen import net as gnet
from vlib.ref import hyd as ref
from vlib import simobs
from vlib.props import c01

ID = 'C09'
LEVEL = 'exploration'
RULE = ('seeded random networks with many initially closed pipes, parallel links between the same node pair in either '
        'direction (none/one/all closed), check valves, pumps, and schedules of time controls that close every link '
        'around a junction and re-open (part of) them later; every junction x reported step judged against reference '
        'reachability; every call of the C++ search compared with BFS on the recorded CSR arrays; subset re-run under '
        'ASan+UBSan; signature = structural class + (isolated steps?, reconnection?); non-trivial = some junction '
        'isolated in some step and some junction connected')
ASSUMPTIONS = ['reachability is judged on the link statuses the results report for that step',
               'a run that does not converge or raises is inconclusive here and reported under C16']
FLOORS = {'quick': {'conclusive': 60, 'distinct_nontrivial': 30,
                    'counters': {'junction_steps': 3000, 'isolated_junction_steps': 300, 'connected_junction_steps': 2000,
                                 'search_calls': 800, 'reconnections': 15, 'parallel_pair_cases': 20, 'asan_cases': 10}},
          'thorough': {'conclusive': 900, 'distinct_nontrivial': 400,
                       'counters': {'junction_steps': 50000, 'isolated_junction_steps': 5000, 'connected_junction_steps': 30000,
                                    'search_calls': 12000, 'reconnections': 250, 'parallel_pair_cases': 300, 'asan_cases': 100}}}
CASE_TIMEOUT = {'quick': 120, 'thorough': 300}


# appended to RULE in the evidence (vlib/runner.py)
RULE_ADDENDUM = 'Added in round 5: a bridge pipe replaced by a CLOSED TCV/PRV/FCV that a time control or rule on its setting brings back (30 % of the cases). Round 6: in every fourth case the judged run is the second run_sim of one simulator object after reset_initial_values().'

def n_cases(tier):
    return 200 if tier == 'quick' else 3000


def asan_cases(tier):
    return range(0, 40) if tier == 'quick' else range(0, 400)


def run_case(c, rng):
    import numpy as np
    import wntr.sim.core as core
    spec = gnet.gen_spec(rng, p_closed=rng.choice([0.1, 0.25, 0.4]), p_parallel=0.6, p_cv=0.2, p_leak=0.05,
                         n_valve=(0, 1), p_power_pump=0.05, n_junc=(3, 12) if c.tier == 'quick' else (3, 30))
    # close some members of parallel groups
    pairs = {}
    for p in spec['pipes']:
        pairs.setdefault(tuple(sorted((p['start'], p['end']))), []).append(p)
    npar = 0
    for k, grp in pairs.items():
        if len(grp) > 1:
            npar += 1
            mode = rng.choice(['none', 'one', 'all_but_one', 'all'])
            order = list(grp)
            rng.shuffle(order)
            for i, p in enumerate(order):
                p['status'] = {'none': 'OPEN', 'one': 'CLOSED' if i == 0 else 'OPEN',
                               'all_but_one': 'OPEN' if i == 0 else 'CLOSED', 'all': 'CLOSED'}[mode]
    if npar:
        c.count('parallel_pair_cases')
    sched = []
    if rng.random() < 0.75:
        sched = gnet.add_isolation_schedule(spec, rng, with_leak=0.3, n=rng.randint(1, 2))
    # schedules on parallel groups: toggle single members over time
    o = spec['options']
    for k, grp in pairs.items():
        if len(grp) > 1 and rng.random() < 0.7:
            for p in grp:
                if rng.random() < 0.7:
                    t = o['hydraulic_timestep'] * rng.randint(1, 3)
                    spec['controls'].append({'kind': 'time', 'name': 'par_%s_%d_%d' % (p['name'], t, len(spec['controls'])), 'time': t,
                                             'target': p['name'], 'attr': 'status',
                                             'value': 'CLOSED' if p['status'] == 'OPEN' else 'OPEN'})
    # a valve as the only way into a zone, CLOSED at the start and brought back by a control on its *setting* (the status change
    # reaches the model through the simulator's hidden companion control): side stream seeded by the case
    import random as _random
    side = _random.Random(c.index * 86028121 + len(spec['pipes']) * 17 + len(spec['junctions']))
    if side.random() < 0.3:
        if gnet.add_valve_cut(spec, side) is not None:
            c.count('valve_cut_cases')
    wn = gnet.build(spec)
    sample = {'spec': spec}
    c.sample = {'spec_summary': gnet.signature(spec), 'isolation_schedule': sched}

    calls = []
    orig = core.check_for_isolated_junctions

    def spy(sources, indicator, indptr, indices, data, nconn):
        before = np.array(indicator, copy=True)
        orig(sources, indicator, indptr, indices, data, nconn)
        want = ref_search(sources, before, indptr, indices, data)
        c.count('search_calls')
        if not np.array_equal(np.asarray(indicator), want) and len(calls) < 3:
            calls.append({'sources': sources.tolist(), 'indptr': indptr.tolist(), 'indices': indices.tolist(),
                          'data': data.tolist(), 'num_connections': nconn.tolist(),
                          'got': np.asarray(indicator).tolist(), 'want': want.tolist()})

    # every fourth case: the judged run is the *second* run_sim call of one simulator object, after reset_initial_values()
    # (statuses at the end of the first run differ from the initial ones wherever a control acted)
    sim_obj = None
    if side.random() < 0.25:
        import wntr
        import warnings as _w
        sim_obj = wntr.sim.WNTRSimulator(wn)
        try:
            with _w.catch_warnings():
                _w.simplefilter('ignore')
                sim_obj.run_sim()
        except Exception:
            sim_obj = None
        wn.reset_initial_values()
        if sim_obj is not None:
            c.count('second_run_of_one_simulator_cases')
    core.check_for_isolated_junctions = spy
    try:
        tr = simobs.run_wntr(wn, deep=True, sim=sim_obj)
    finally:
        core.check_for_isolated_junctions = orig
    for bad in calls:
        c.violate('native_search_mismatch', 'C++ check_for_isolated_junctions disagrees with BFS on the same arrays', **bad)
    if not simobs.converged(tr):
        c.inconclusive('sim_failed: %s' % (type(tr.exception).__name__ if tr.exception else 'not_converged'))
        c.set_sig(gnet.signature(spec))
        return
    res = tr.results
    topo = ref.Topo(wn)
    S, Q, D, P, H = res.link['status'], res.link['flowrate'], res.node['demand'], res.node['pressure'], res.node['head']
    times = list(D.index)
    if len(tr.saved) != len(times):
        c.inconclusive('hook_saw_%d_steps_results_have_%d' % (len(tr.saved), len(times)))
        return
    dd = wn.options.hydraulic.demand_model in ('DD', 'DDA')
    was_iso = set()
    any_iso = any_conn = reconn = False
    for i, t in enumerate(times):
        closed = set(ln for ln in topo.links if S[ln].values[i] == 0)
        conn = topo.connected_nodes(closed)
        flags = set(tr.saved[i]['iso_nodes'])
        lflags = set(tr.saved[i]['iso_links'])
        for name, j in wn.junctions():
            c.count('junction_steps')
            riso = name not in conn
            wit = dict(junction=name, t=t, closed_links=sorted(closed), flagged=sorted(flags), sample=sample)
            if riso != (name in flags):
                if riso:
                    c.violate('isolated_not_detected', 'junction %s t=%s has no path of non-closed links to a source but is not treated as isolated' % (name, t), **wit)
                else:
                    c.violate('connected_treated_isolated', 'junction %s t=%s has a path of non-closed links to a source but is flagged isolated' % (name, t), **wit)
                continue
            if riso:
                any_iso = True
                was_iso.add(name)
                c.count('isolated_junction_steps')
                vals = {'demand': float(D[name].values[i]), 'pressure': float(P[name].values[i])}
                flows = {ln: float(Q[ln].values[i]) for ln in topo.incident(name)}
                if any(v != 0 for v in vals.values()) or any(v != 0 for v in flows.values()):
                    c.violate('isolated_not_zeroed', 'isolated junction %s t=%s reports %s flows %s' % (name, t, vals, flows), values=vals, flows=flows, **wit)
                if any(ln not in lflags for ln in topo.incident(name)):
                    c.violate('isolated_link_not_flagged', 'link at isolated junction %s t=%s is not flagged isolated' % (name, t), **wit)
            else:
                any_conn = True
                c.count('connected_junction_steps')
                if name in was_iso:
                    was_iso.discard(name)
                    reconn = True
                    c.count('reconnections')
                if dd:
                    want = ref.requested_demand(wn, j, t)
                    got = float(D[name].values[i])
                    if not abs(got - want) <= 1e-12 * max(abs(want), abs(got)) + 1e-15:
                        c.violate('connected_demand_not_delivered', 'connected junction %s t=%s delivered %.9g of requested %.9g' % (name, t, got, want), got=got, want=want, **wit)
        # links flagged isolated must touch an isolated junction
        for ln in lflags:
            a, b = topo.links[ln]
            if a in conn and b in conn:
                c.violate('connected_link_flagged', 'link %s t=%s joins two connected nodes but is flagged isolated' % (ln, t), link=ln, t=t, sample=sample)
    # reconnection restores normal results: balance and (DD) demand hold on all steps
    c01.check_balance(c, wn, res, sample)
    c.set_sig(gnet.signature(spec), any_iso, reconn)
    c.nontrivial = any_iso and any_conn


def ref_search(sources, indicator, indptr, indices, data):
    import numpy as np
    ind = np.array(indicator, copy=True)
    stack = []
    for s in sources:
        s = int(s)
        if ind[s] == 1:
            ind[s] = 0
            stack.append(s)
    while stack:
        x = stack.pop()
        for k in range(int(indptr[x]), int(indptr[x + 1])):
            if data[k] == 1:
                y = int(indices[k])
                if ind[y] == 1:
                    ind[y] = 0
                    stack.append(y)
    return ind
