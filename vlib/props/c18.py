"""C18 - valve segmentation is exactly the partition induced by the valve layer.

Events: the three return values of wntr.metrics.valve_segments and the frame returned by
valve_segment_attributes, for random multigraphs and random valve layers.
Oracle: union-find over nodes U links joining a link with an end node unless a valve sits on that
(link, node) pair; reference num_surround / demand_increase / length_increase from the partition.
"""
import traceback
import warnings

ID = 'C18'
LEVEL = 'exploration'
RULE = ('random networks built through the API (2-40 junctions, tree + chords + parallel links + dead ends + sometimes a second '
        'component or an isolated node), graph = wn.to_graph(); valve layers = random subsets of (link, end node) pairs with density '
        '0-100 %, with duplicated rows, with a subset index (rows sampled from a larger layer), both ends of a link, every link of a '
        'node, plus generate_valve_layer(strategic n=0..2 / random); signature = (n nodes, n links, n valves, flags); non-trivial = at '
        'least 2 segments and at least one valve whose two sides differ')
ASSUMPTIONS = ['a valve row names a link and one of its end nodes',
               'a valve bounds a segment when its link or its node belongs to it (the documented counting); duplicated rows are one valve',
               'demand/length increase = min/max of the two segment totals, 0 when both are 0 or both sides are one segment']
FLOORS = {'quick': {'conclusive': 250, 'distinct_nontrivial': 100,
                    'counters': {'partitions_compared': 250, 'elements_labelled': 2000, 'valve_rows_checked': 1000,
                                 'layers_with_duplicates': 15, 'layers_with_subset_index': 8, 'parallel_link_graphs': 50,
                                 'generated_layers': 20, 'separating_valves': 1000, 'nonseparating_valves': 30}},
          'thorough': {'conclusive': 4000, 'distinct_nontrivial': 1500,
                       'counters': {'partitions_compared': 4000, 'elements_labelled': 60000, 'valve_rows_checked': 30000,
                                    'layers_with_duplicates': 250, 'layers_with_subset_index': 120, 'parallel_link_graphs': 800,
                                    'generated_layers': 300, 'separating_valves': 25000, 'nonseparating_valves': 500}}}
CASE_TIMEOUT = {'quick': 120, 'thorough': 300}


# appended to RULE in the evidence (vlib/runner.py)
RULE_ADDENDUM = 'Added in round 5: node / link names that contain the prefixes the implementation uses internally (N_, L_). Round 7: 30 % of the valve layers have their columns ordered node, link.'

def n_cases(tier):
    return 400 if tier == 'quick' else 15000


class UF(object):
    def __init__(self):
        self.p = {}

    def find(self, x):
        self.p.setdefault(x, x)
        while self.p[x] != x:
            self.p[x] = self.p[self.p[x]]
            x = self.p[x]
        return x

    def union(self, a, b):
        ra, rb = self.find(a), self.find(b)
        if ra != rb:
            self.p[ra] = rb


def build_network(rng, tier):
    import wntr
    wn = wntr.network.WaterNetworkModel()
    n = rng.randint(2, 14 if tier == 'quick' else 40)
    names = []
    for i in range(n):
        # any legal name, also ones that contain the prefixes the implementation uses internally ('N_', 'L_')
        nm = rng.choice(['J%d', '%d', 'n%d', 'J%d', '%d', 'N_%d', 'TOWN_%d', 'N_N_%d', 'L_%d', 'x.%d-N_']) % (i + 1)
        if nm in names:
            nm = 'J%d' % (i + 1)
        wn.add_junction(nm, base_demand=0.0, elevation=0.0, coordinates=(float(i), float(i % 3)))
        names.append(nm)
    second = rng.random() < 0.2 and n >= 5
    split = rng.randint(2, n - 2) if second else n
    links = []

    def add(a, b):
        ln = rng.choice(['P%d', '%d', 'L%d', 'P%d', '%d', 'L_%d', 'CANAL_%d', 'N_%d', 'L_L_%d']) % (len(links) + 1)
        if ln in [l[0] for l in links]:
            ln = 'P%d' % (len(links) + 1)
        wn.add_pipe(ln, a, b, length=float(rng.randint(10, 500)), diameter=0.3)
        links.append((ln, a, b))
    for i in range(1, n):
        if i == split:
            continue       # start of the second component
        lo = 0 if i < split else split
        add(names[rng.randint(lo, i - 1)], names[i])
    for _ in range(rng.randint(0, max(1, n // 3))):
        a, b = rng.sample(range(n), 2)
        if second and ((a < split) != (b < split)):
            continue
        add(names[a], names[b])
    par = False
    if links and rng.random() < 0.45:
        for _ in range(rng.randint(1, 3)):
            ln, a, b = rng.choice(links)
            if rng.random() < 0.5:
                a, b = b, a
            add(a, b)
            par = True
    iso = False
    if rng.random() < 0.12:
        wn.add_junction('ISO', base_demand=0.0, elevation=0.0, coordinates=(9.0, 9.0))
        names.append('ISO')
        iso = True
    return wn, names, links, {'parallel': par, 'second_component': second, 'isolated_node': iso}


def run_case(c, rng):
    import pandas as pd
    import wntr
    wn, names, links, flags = build_network(rng, c.tier)
    if not links:
        c.inconclusive('no_links')
        return
    G = wn.to_graph()
    pairs = [(ln, a) for ln, a, b in links] + [(ln, b) for ln, a, b in links]
    mode = rng.choice(['random', 'random', 'random', 'dense', 'sparse', 'all', 'none', 'generated', 'generated', 'node_ring'])
    dup = sub = False
    gen = None
    if mode == 'generated':
        kind = rng.choice(['strategic', 'strategic', 'random'])
        nn = rng.choice([0, 1, 2]) if kind == 'strategic' else rng.randint(0, len(pairs))
        gen = (kind, nn)
        try:
            with warnings.catch_warnings():
                warnings.simplefilter('ignore')
                vl = wntr.network.generate_valve_layer(wn, kind, nn, seed=rng.randint(0, 10 ** 6))
        except Exception as e:
            c.violate('generate_valve_layer_raised', 'generate_valve_layer(%s, %s) raised %s: %s' % (kind, nn, type(e).__name__, e),
                      traceback=traceback.format_exc()[-1200:])
            return
        c.count('generated_layers')
    else:
        dens = {'random': rng.random(), 'dense': 0.85, 'sparse': 0.1, 'all': 1.0, 'none': 0.0, 'node_ring': 0.15}[mode]
        rows = [p for p in pairs if rng.random() < dens]
        if mode == 'node_ring':          # every link of a few nodes gets a valve at that node
            for nm in rng.sample(names, min(len(names), rng.randint(1, 3))):
                rows += [(ln, nm) for ln, a, b in links if nm in (a, b)]
            rows = list(dict.fromkeys(rows))
        rng.shuffle(rows)
        if rows and rng.random() < 0.2:
            dup = True
            for _ in range(rng.randint(1, 3)):
                rows.insert(rng.randint(0, len(rows)), rng.choice(rows))
            c.count('layers_with_duplicates')
        vl = pd.DataFrame(rows, columns=['link', 'node'])
        if (c.index * 2654435761) % 10 < 3:
            vl = vl[['node', 'link']]        # the documented contract names the columns, it does not order them
            c.count('layers_with_node_column_first')
        if len(rows) >= 3 and not dup and rng.random() < 0.15:
            sub = True
            keep = sorted(rng.sample(range(len(rows)), rng.randint(1, len(rows) - 1)))
            vl = vl.loc[keep]              # a layer cut out of a larger one keeps its valve numbers
            c.count('layers_with_subset_index')
    layer_rows = [(int(i) if not isinstance(i, str) else i, r['link'], r['node']) for i, r in vl.iterrows()]
    wit = {'links': links, 'nodes': names, 'valve_layer': layer_rows[:80], 'mode': mode, 'generated': gen}
    if flags['parallel']:
        c.count('parallel_link_graphs')
    # ---- reference partition
    valves = set((l, n) for _, l, n in layer_rows)
    uf = UF()
    for nm in names:
        uf.find(('N', nm))
    for ln, a, b in links:
        uf.find(('L', ln))
        for end in (a, b):
            if (ln, end) not in valves:
                uf.union(('L', ln), ('N', end))
    # ---- the real function
    try:
        with warnings.catch_warnings():
            warnings.simplefilter('ignore')
            ns, ls, sizes = wntr.metrics.valve_segments(G, vl)
    except Exception as e:
        c.violate('valve_segments_raised', 'valve_segments raised %s: %s' % (type(e).__name__, e), traceback=traceback.format_exc()[-1500:], **wit)
        return
    c.count('partitions_compared')
    if sorted(ns.index) != sorted(names) or sorted(ls.index) != sorted(l[0] for l in links):
        c.violate('segments_index_wrong', 'node/link segment series do not cover exactly the nodes/links: %s / %s' % (list(ns.index)[:10], list(ls.index)[:10]), **wit)
        return
    lab = {}
    for nm in names:
        lab[('N', nm)] = int(ns[nm])
    for ln, a, b in links:
        lab[('L', ln)] = int(ls[ln])
    c.count('elements_labelled', len(lab))
    bad = [k for k, v in lab.items() if v <= 0]
    if bad:
        c.violate('nonpositive_segment_number', 'elements with segment number <= 0: %s' % bad[:8], labels={str(k): v for k, v in lab.items()}, **wit)
    l2c, c2l = {}, {}
    for k, v in lab.items():
        cls = uf.find(k)
        if v in l2c and l2c[v] != cls:
            other = [x for x in lab if lab[x] == v and uf.find(x) == l2c[v]][0]
            c.violate('segment_merges_classes', '%s and %s share segment %d but a valve lies on every path between them' % (k, other, v),
                      labels={str(x): y for x, y in lab.items()}, **wit)
            break
        l2c[v] = cls
        if cls in c2l and c2l[cls] != v:
            other = [x for x in lab if uf.find(x) == cls and lab[x] == c2l[cls]][0]
            c.violate('segment_splits_class', '%s (segment %d) and %s (segment %d) can be joined without passing a valve' % (k, v, other, c2l[cls]),
                      labels={str(x): y for x, y in lab.items()}, **wit)
            break
        c2l[cls] = v
    # sizes
    want_sizes = {}
    for k, v in lab.items():
        w = want_sizes.setdefault(v, {'node': 0, 'link': 0})
        w['node' if k[0] == 'N' else 'link'] += 1
    try:
        have_sizes = {int(i): {'node': int(r['node']), 'link': int(r['link'])} for i, r in sizes.iterrows()}
    except Exception as e:
        have_sizes = None
        c.violate('seg_sizes_malformed', 'segment size table unreadable: %s' % e, **wit)
    if have_sizes is not None and have_sizes != want_sizes:
        c.violate('seg_sizes_wrong', 'segment sizes %s, members counted from the labels %s' % (
            {k: v for k, v in have_sizes.items() if want_sizes.get(k) != v}, {k: v for k, v in want_sizes.items() if have_sizes.get(k) != v}), **wit)
    nseg = len(set(lab.values()))
    c.set_sig(len(names), len(links), len(layer_rows), mode, dup, sub, *sorted(k for k, v in flags.items() if v))
    c.sample = {'nodes': len(names), 'links': len(links), 'valves': len(layer_rows), 'mode': mode, 'segments': nseg,
                'layer_head': layer_rows[:6]}
    if c.violations:
        return
    # ---- attributes
    demand = pd.Series({nm: (0.0 if rng.random() < 0.3 else round(rng.uniform(0.001, 0.05), 5)) for nm in names if rng.random() < 0.95})
    length = pd.Series({ln: float(wn.get_link(ln).length) for ln, a, b in links})
    vl2 = vl.drop_duplicates()
    rows2 = [(i, r['link'], r['node']) for i, r in vl2.iterrows()]
    try:
        with warnings.catch_warnings():
            warnings.simplefilter('ignore')
            attrs = wntr.metrics.valve_segment_attributes(vl2, ns, ls, demand, length)
    except Exception as e:
        tb = traceback.format_exc()[-1500:]
        noncontig = list(vl2.index) != list(range(len(vl2)))
        kind = 'attributes_raised_noncontiguous_index' if (noncontig and isinstance(e, KeyError)) else 'attributes_raised'
        c.violate(kind, 'valve_segment_attributes raised %s: %s (layer index %s)' % (type(e).__name__, e, list(vl2.index)[:12]), traceback=tb,
                  duplicates=dup, subset_index=sub, **wit)
        return
    if list(attrs.index) != [i for i, _, _ in rows2]:
        c.violate('attributes_index_wrong', 'attribute rows %s, valve numbers %s' % (list(attrs.index)[:12], [i for i, _, _ in rows2][:12]), **wit)
        return
    distinct = list(dict.fromkeys((l, n) for _, l, n in rows2))
    sep = False
    for i, l, n in rows2:
        c.count('valve_rows_checked')
        s_link, s_node = lab[('L', l)], lab[('N', n)]
        if s_link == s_node:
            c.count('nonseparating_valves')
            want = (0, 0.0, 0.0)
        else:
            sep = True
            c.count('separating_valves')
            segs = (s_link, s_node)
            others = [p for p in distinct if p != (l, n) and (lab[('L', p[0])] in segs or lab[('N', p[1])] in segs)]
            d1 = sum(float(demand.get(nm, 0.0)) for nm in names if lab[('N', nm)] == s_link)
            d2 = sum(float(demand.get(nm, 0.0)) for nm in names if lab[('N', nm)] == s_node)
            l1 = sum(float(length[ln]) for ln, a, b in links if lab[('L', ln)] == s_link)
            l2 = sum(float(length[ln]) for ln, a, b in links if lab[('L', ln)] == s_node)
            want = (len(others), (min(d1, d2) / max(d1, d2)) if max(d1, d2) > 0 else 0.0, (min(l1, l2) / max(l1, l2)) if max(l1, l2) > 0 else 0.0)
        have = (int(attrs.loc[i, 'num_surround']), float(attrs.loc[i, 'demand_increase']), float(attrs.loc[i, 'length_increase']))
        if have[0] != want[0]:
            c.violate('num_surround_wrong', 'valve %s (%s at %s): num_surround %d, %d other valves bound its two segments' % (i, l, n, have[0], want[0]),
                      labels={str(x): y for x, y in lab.items()}, **wit)
            break
        if abs(have[1] - want[1]) > 1e-9 * (1 + abs(want[1])):
            c.violate('demand_increase_wrong', 'valve %s (%s at %s): demand_increase %.9g, expected %.9g' % (i, l, n, have[1], want[1]),
                      demand=demand.to_dict(), labels={str(x): y for x, y in lab.items()}, **wit)
            break
        if abs(have[2] - want[2]) > 1e-9 * (1 + abs(want[2])):
            c.violate('length_increase_wrong', 'valve %s (%s at %s): length_increase %.9g, expected %.9g' % (i, l, n, have[2], want[2]),
                      labels={str(x): y for x, y in lab.items()}, **wit)
            break
    c.nontrivial = nseg >= 2 and sep
