"""C14 - all views of the model stay mutually consistent under any edit history.

Events: after EVERY operation of a random edit history (add/remove of every element kind,
reassignment of end nodes / patterns / curves, duplicate-name adds, adds with a missing end node,
removals of in-use elements) the monitor reads every view the property names and compares
  (1) the views with each other (invariant), and
  (2) the views with a pure-Python shadow model advanced in lock-step (exactly the existing
      elements, adjacency, users), and
  (3) for an operation that must be refused: that it raised and that a full snapshot of the
      views (and of to_dict()) is unchanged.
"""
import copy
import json
import traceback

ID = 'C14'
LEVEL = 'exploration'
RULE = ('edit histories of 10-60 (thorough: up to 200) operations on an empty model, a seeded small network or Net1/Net3/Net6-like '
        'examples: add_junction/tank/reservoir/pipe/pump(HEAD,POWER)/valve(6 types)/pattern/curve(4 types)/source/control(time, '
        'tank-level, pressure, rule with else), remove_node/link/pattern/curve/source/control (with_control on/off), reassign '
        'start/end node (also to the same node), reservoir head pattern, pump speed pattern, pump curve, tank volume curve, GPV '
        'headloss curve, extra junction demands; duplicate-name adds; adds naming a missing node; removal of in-use elements; every '
        'view compared after every operation with the other views and with a shadow model; signature = multiset of operation kinds '
        '(bucketed) + start model; non-trivial = history with at least one successful removal, one reassignment and one refused removal')
ASSUMPTIONS = ['a duplicate-name add may either be refused (model unchanged) or replace the element (then every view must show exactly the new element)',
               'usage records are judged as stated: every user they mention exists; that in-use removals are refused is judged by behaviour',
               'force=True removals are not part of the workload (documented to bypass the checks)']
FLOORS = {'quick': {'conclusive': 250, 'distinct_nontrivial': 100,
                    'counters': {'operations': 8000, 'view_checks': 8000, 'removals_ok': 800, 'reassignments': 800,
                                 'refusals_expected': 500, 'duplicate_adds': 200, 'missing_node_adds': 150,
                                 'links_for_node_compared': 30000, 'graph_compared': 8000}},
          'thorough': {'conclusive': 1000, 'distinct_nontrivial': 800,
                       'counters': {'operations': 60000, 'view_checks': 60000, 'removals_ok': 5000, 'reassignments': 5000,
                                    'refusals_expected': 3000, 'duplicate_adds': 1200, 'missing_node_adds': 800,
                                    'links_for_node_compared': 150000, 'graph_compared': 60000}}}
CASE_TIMEOUT = {'quick': 180, 'thorough': 600}

VALVE_TYPES = ['PRV', 'PSV', 'PBV', 'FCV', 'TCV', 'GPV']
CURVE_TYPES = ['HEAD', 'EFFICIENCY', 'VOLUME', 'HEADLOSS']


# appended to RULE in the evidence (vlib/runner.py)
RULE_ADDENDUM = 'Added in rounds 4-5: end swaps through a transient self-loop and morph.reverse_link as operations; a directed strand-then-remove sequence on nodes that keep a source or a control; AND / OR condition trees over further nodes and links.'

def n_cases(tier):
    return 400 if tier == 'quick' else 3000


# ------------------------------------------------------------------------------------------------
# shadow model
# ------------------------------------------------------------------------------------------------
class Shadow(object):
    def __init__(self):
        self.nodes = {}      # name -> dict(type, patterns=[..], head_pattern, vol_curve)
        self.links = {}      # name -> dict(type, sub, start, end, curve, speed_pattern)
        self.patterns = set()
        self.curves = {}     # name -> type or None
        self.sources = {}    # name -> dict(node, pattern)
        self.controls = {}   # name -> set(element names required)

    @classmethod
    def from_model(cls, wn):
        s = cls()
        for n, o in wn.nodes():
            d = {'type': o.node_type, 'patterns': [], 'head_pattern': None, 'vol_curve': None}
            if o.node_type == 'Junction':
                d['patterns'] = [p.name for p in o.demand_timeseries_list.pattern_list() if p is not None]
            elif o.node_type == 'Reservoir':
                d['head_pattern'] = o.head_pattern_name
            else:
                d['vol_curve'] = o.vol_curve_name
            s.nodes[n] = d
        for n, o in wn.links():
            d = {'type': o.link_type, 'sub': None, 'start': o.start_node_name, 'end': o.end_node_name, 'curve': None,
                 'speed_pattern': None}
            if o.link_type == 'Pump':
                d['sub'] = o.pump_type
                d['speed_pattern'] = o.speed_pattern_name
                if o.pump_type == 'HEAD':
                    d['curve'] = o.pump_curve_name
            elif o.link_type == 'Valve':
                d['sub'] = o.valve_type
                if o.valve_type == 'GPV':
                    d['curve'] = o.headloss_curve_name
            s.links[n] = d
        s.patterns = set(wn.pattern_name_list)
        for n, cv in wn.curves():
            s.curves[n] = cv.curve_type
        for n, so in wn.sources():
            s.sources[n] = {'node': so.node_name, 'pattern': so.strength_timeseries.pattern_name}
        for n, ct in wn.controls():
            s.controls[n] = set(('L' if hasattr(o, 'link_type') else 'N', getattr(o, 'name', None)) for o in ct.requires())
        return s

    def node_users(self, n):
        return [l for l, d in self.links.items() if n in (d['start'], d['end'])] + \
               [s for s, d in self.sources.items() if d['node'] == n]

    def pattern_users(self, p):
        out = [n for n, d in self.nodes.items() if p in d['patterns'] or d['head_pattern'] == p]
        out += [l for l, d in self.links.items() if d['speed_pattern'] == p]
        out += [s for s, d in self.sources.items() if d['pattern'] == p]
        return out

    def curve_users(self, cv):
        return [n for n, d in self.nodes.items() if d['vol_curve'] == cv] + [l for l, d in self.links.items() if d['curve'] == cv]

    def controls_requiring(self, kind, name):
        """kind 'N' (node) or 'L' (link): nodes and links have separate name spaces."""
        return [c for c, req in self.controls.items() if (kind, name) in req]


# ------------------------------------------------------------------------------------------------
# view snapshot and invariant
# ------------------------------------------------------------------------------------------------
def _safe(fn, problems, what):
    try:
        return fn()
    except Exception as e:
        problems.append(('view_raises', '%s raised %s: %s' % (what, type(e).__name__, e)))
        return None


def snapshot(wn, problems):
    """Read every view named by the property.  Exceptions while reading are problems, not crashes."""
    s = {}
    for attr in ('node_name_list', 'junction_name_list', 'tank_name_list', 'reservoir_name_list', 'link_name_list',
                 'pipe_name_list', 'pump_name_list', 'head_pump_name_list', 'power_pump_name_list', 'valve_name_list',
                 'prv_name_list', 'psv_name_list', 'pbv_name_list', 'tcv_name_list', 'fcv_name_list', 'gpv_name_list',
                 'pattern_name_list', 'curve_name_list', 'source_name_list', 'control_name_list'):
        s[attr] = _safe(lambda a=attr: list(getattr(wn, a)), problems, 'wn.' + attr)
    for attr in ('num_nodes', 'num_junctions', 'num_tanks', 'num_reservoirs', 'num_links', 'num_pipes', 'num_pumps',
                 'num_valves', 'num_patterns', 'num_curves', 'num_sources', 'num_controls'):
        s[attr] = _safe(lambda a=attr: int(getattr(wn, a)), problems, 'wn.' + attr)
    for it in ('nodes', 'junctions', 'tanks', 'reservoirs', 'links', 'pipes', 'pumps', 'valves', 'head_pumps', 'power_pumps',
               'prvs', 'psvs', 'pbvs', 'tcvs', 'fcvs', 'gpvs', 'patterns', 'curves', 'sources', 'controls'):
        s['iter_' + it] = _safe(lambda a=it: [(k, type(v).__name__, getattr(v, 'name', k)) for k, v in getattr(wn, a)()],
                                problems, 'wn.%s()' % it)
    for lvl in (0, 1, 2):
        s['describe%d' % lvl] = _safe(lambda l=lvl: json.loads(json.dumps(wn.describe(l))), problems, 'wn.describe(%d)' % lvl)
    s['ends'] = _safe(lambda: {n: (l.start_node_name, l.end_node_name, l.start_node is wn.get_node(l.start_node_name),
                                   l.end_node is wn.get_node(l.end_node_name)) for n, l in wn._link_reg._data.items()},
                      problems, 'link end nodes')
    lfn = {}
    for n in (s['node_name_list'] or []):
        for flag in ('ALL', 'INLET', 'OUTLET'):
            lfn[n + '/' + flag] = _safe(lambda n=n, f=flag: sorted(wn.get_links_for_node(n, f)), problems,
                                        "wn.get_links_for_node(%r, %r)" % (n, flag))
    s['links_for_node'] = lfn
    g = _safe(lambda: wn.to_graph(), problems, 'wn.to_graph()')
    if g is not None:
        s['graph_nodes'] = sorted(g.nodes())
        s['graph_edges'] = sorted((u, v, k) for u, v, k in g.edges(keys=True))
    else:
        s['graph_nodes'] = s['graph_edges'] = None
    for regname in ('_node_reg', '_link_reg', '_pattern_reg', '_curve_reg', '_sources'):
        reg = getattr(wn, regname)
        s['usage' + regname] = _safe(lambda r=reg: {k: sorted([list(map(str, u)) for u in v]) for k, v in r.usage()}, problems,
                                     regname + '.usage()')
        s['orphaned' + regname] = _safe(lambda r=reg: sorted(r.orphaned()), problems, regname + '.orphaned()')
        s['unused' + regname] = _safe(lambda r=reg: sorted(r.unused()), problems, regname + '.unused()')
    cr = wn._curve_reg
    for nm in ('pump_curve_names', 'efficiency_curve_names', 'headloss_curve_names', 'volume_curve_names', 'untyped_curve_names'):
        s[nm] = _safe(lambda a=nm: sorted(getattr(cr, a)), problems, 'curve registry ' + nm)
    for nm in ('pump_curves', 'efficiency_curves', 'headloss_curves', 'volume_curves', 'untyped_curves'):
        s['iter_' + nm] = _safe(lambda a=nm: sorted(k for k, v in getattr(cr, a)()), problems, 'curve registry %s()' % nm)
    s['control_requires'] = _safe(lambda: {k: sorted(str(getattr(o, 'name', o)) for o in v.requires()) for k, v in wn.controls()},
                                  problems, 'control.requires()')
    return s


def invariant(s, problems):
    """Mutual consistency of the views in one snapshot."""
    def P(kind, msg):
        problems.append((kind, msg))

    def names(key):
        return s.get(key) or []

    groups = [
        ('node', 'node_name_list', 'num_nodes', 'iter_nodes',
         [('junction_name_list', 'num_junctions', 'iter_junctions', 'Junction'), ('tank_name_list', 'num_tanks', 'iter_tanks', 'Tank'),
          ('reservoir_name_list', 'num_reservoirs', 'iter_reservoirs', 'Reservoir')]),
        ('link', 'link_name_list', 'num_links', 'iter_links',
         [('pipe_name_list', 'num_pipes', 'iter_pipes', 'Pipe'), ('pump_name_list', 'num_pumps', 'iter_pumps', None),
          ('valve_name_list', 'num_valves', 'iter_valves', None)]),
        ('pump', 'pump_name_list', 'num_pumps', 'iter_pumps',
         [('head_pump_name_list', None, 'iter_head_pumps', 'HeadPump'), ('power_pump_name_list', None, 'iter_power_pumps', 'PowerPump')]),
        ('valve', 'valve_name_list', 'num_valves', 'iter_valves',
         [('prv_name_list', None, 'iter_prvs', 'PRValve'), ('psv_name_list', None, 'iter_psvs', 'PSValve'),
          ('pbv_name_list', None, 'iter_pbvs', 'PBValve'), ('tcv_name_list', None, 'iter_tcvs', 'TCValve'),
          ('fcv_name_list', None, 'iter_fcvs', 'FCValve'), ('gpv_name_list', None, 'iter_gpvs', 'GPValve')]),
    ]
    for what, lst, num, it, parts in groups:
        full = names(lst)
        if len(set(full)) != len(full):
            P('duplicate_in_name_list', '%s has duplicates: %s' % (lst, full))
        if num and s.get(num) is not None and s[num] != len(full):
            P('count_mismatch', '%s = %s but %s has %d names' % (num, s[num], lst, len(full)))
        if s.get(it) is not None and sorted(k for k, _, _ in s[it]) != sorted(full):
            P('iterator_mismatch', 'wn.%s yields %s, %s = %s' % (it[5:], sorted(k for k, _, _ in s[it])[:12], lst, sorted(full)[:12]))
        union = []
        for plst, pnum, pit, cls in parts:
            sub = names(plst)
            union += sub
            if pnum and s.get(pnum) is not None and s[pnum] != len(sub):
                P('count_mismatch', '%s = %s but %s has %d names' % (pnum, s[pnum], plst, len(sub)))
            if s.get(pit) is not None:
                if sorted(k for k, _, _ in s[pit]) != sorted(sub):
                    P('iterator_mismatch', 'wn.%s() yields %s, %s = %s' % (pit[5:], sorted(k for k, _, _ in s[pit])[:12], plst, sorted(sub)[:12]))
                for k, tname, oname in s[pit]:
                    if cls and tname != cls:
                        P('wrong_type_in_view', 'wn.%s() yields %s which is a %s' % (pit[5:], k, tname))
                    if oname != k:
                        P('name_mismatch', 'wn.%s() yields key %s for an object named %s' % (pit[5:], k, oname))
        if sorted(union) != sorted(full):
            P('typed_views_do_not_partition', '%s = %s but its typed name lists together give %s' % (lst, sorted(full)[:15], sorted(union)[:15]))
    for lst, num, it in (('pattern_name_list', 'num_patterns', 'iter_patterns'), ('curve_name_list', 'num_curves', 'iter_curves'),
                         ('source_name_list', 'num_sources', 'iter_sources'), ('control_name_list', 'num_controls', 'iter_controls')):
        full = names(lst)
        if s.get(num) is not None and s[num] != len(full):
            P('count_mismatch', '%s = %s but %s has %d names' % (num, s[num], lst, len(full)))
        if s.get(it) is not None and sorted(k for k, _, _ in s[it]) != sorted(full):
            P('iterator_mismatch', 'wn.%s() yields %s, %s = %s' % (it[5:], sorted(k for k, _, _ in s[it])[:12], lst, sorted(full)[:12]))
    # describe
    d0, d1, d2 = s.get('describe0'), s.get('describe1'), s.get('describe2')
    if d0 is not None:
        want = {'Nodes': len(names('node_name_list')), 'Links': len(names('link_name_list')), 'Patterns': len(names('pattern_name_list')),
                'Curves': len(names('curve_name_list')), 'Sources': len(names('source_name_list')), 'Controls': len(names('control_name_list'))}
        if d0 != want:
            P('describe_mismatch', 'describe(0) = %s, name lists give %s' % (d0, want))
    if d1 is not None:
        want_n = {'Junctions': len(names('junction_name_list')), 'Tanks': len(names('tank_name_list')), 'Reservoirs': len(names('reservoir_name_list'))}
        want_l = {'Pipes': len(names('pipe_name_list')), 'Pumps': len(names('pump_name_list')), 'Valves': len(names('valve_name_list'))}
        if d1.get('Nodes') != want_n or d1.get('Links') != want_l:
            P('describe_mismatch', 'describe(1) = %s / %s, name lists give %s / %s' % (d1.get('Nodes'), d1.get('Links'), want_n, want_l))
        cv = d1.get('Curves') or {}
        for key, nm in (('Pump', 'pump_curve_names'), ('Efficiency', 'efficiency_curve_names'), ('Headloss', 'headloss_curve_names'),
                        ('Volume', 'volume_curve_names')):
            have = s.get(nm)
            if have is not None:
                ghosts = [x for x in have if x not in names('curve_name_list')]
                if ghosts:
                    P('typed_curve_view_names_missing_curve', 'curve registry %s lists %s which are not curves of the model' % (nm, ghosts))
                if cv.get(key) != len(have):
                    P('describe_mismatch', 'describe(1) Curves/%s = %s, %s has %d' % (key, cv.get(key), nm, len(have)))
    if d2 is not None:
        try:
            wp = {'Head': len(names('head_pump_name_list')), 'Power': len(names('power_pump_name_list'))}
            wv = {k: len(names(k.lower() + '_name_list')) for k in ('PRV', 'PSV', 'PBV', 'TCV', 'FCV', 'GPV')}
            if d2['Links']['Pumps'] != wp or d2['Links']['Valves'] != wv:
                P('describe_mismatch', 'describe(2) = %s / %s, name lists give %s / %s' % (d2['Links']['Pumps'], d2['Links']['Valves'], wp, wv))
        except (KeyError, TypeError):
            P('describe_mismatch', 'describe(2) malformed: %s' % d2)
    # link ends exist
    ends = s.get('ends') or {}
    node_set = set(names('node_name_list'))
    for ln, (a, b, ia, ib) in ends.items():
        for end, ident in ((a, ia), (b, ib)):
            if end not in node_set:
                P('link_end_missing', 'link %s has end node %s which is not a node of the model' % (ln, end))
            elif not ident:
                P('link_end_stale_object', 'link %s holds a node object for %s that is not the registered node' % (ln, end))
    # get_links_for_node / to_graph reflect exactly the existing links
    lfn = s.get('links_for_node') or {}
    for n in node_set:
        want_all = sorted(l for l, (a, b, _, _) in ends.items() if n in (a, b))
        want_in = sorted(l for l, (a, b, _, _) in ends.items() if b == n)
        want_out = sorted(l for l, (a, b, _, _) in ends.items() if a == n)
        for flag, want in (('ALL', want_all), ('INLET', want_in), ('OUTLET', want_out)):
            have = lfn.get(n + '/' + flag)
            if have is not None and have != want:
                P('links_for_node_wrong', "get_links_for_node(%r, %r) = %s, existing links give %s" % (n, flag, have, want))
    if s.get('graph_nodes') is not None:
        if s['graph_nodes'] != sorted(node_set):
            P('graph_nodes_wrong', 'to_graph() nodes %s, node_name_list %s' % (s['graph_nodes'][:15], sorted(node_set)[:15]))
        want_e = sorted((a, b, l) for l, (a, b, _, _) in ends.items())
        if s['graph_edges'] != want_e:
            P('graph_edges_wrong', 'to_graph() edges %s, existing links give %s' % (
                [e for e in s['graph_edges'] if e not in want_e][:6], [e for e in want_e if e not in s['graph_edges']][:6]))
    # usage records mention only existing users
    exists = {'Junction': set(names('junction_name_list')), 'Tank': set(names('tank_name_list')),
              'Reservoir': set(names('reservoir_name_list')), 'Pipe': set(names('pipe_name_list')),
              'Pump': set(names('pump_name_list')), 'Valve': set(names('valve_name_list')), 'Source': set(names('source_name_list'))}
    for regname, keyset in (('_node_reg', node_set), ('_link_reg', set(names('link_name_list'))),
                            ('_pattern_reg', set(names('pattern_name_list'))), ('_curve_reg', set(names('curve_name_list'))),
                            ('_sources', set(names('source_name_list')))):
        us = s.get('usage' + regname) or {}
        for key, users in us.items():
            if key not in keyset:
                P('usage_of_missing_element', '%s usage has an entry for %r which does not exist' % (regname, key))
            for u in users:
                uname, utype = u[0], u[1] if len(u) > 1 else None
                if utype in exists and uname not in exists[utype]:
                    P('usage_names_missing_user', '%s usage of %r lists user (%s, %s) which does not exist' % (regname, key, uname, utype))
        orph = s.get('orphaned' + regname)
        if orph:
            P('usage_of_missing_element', '%s.orphaned() = %s' % (regname, orph))
    # controls require existing elements
    allnames = node_set | set(names('link_name_list'))
    for cn, req in (s.get('control_requires') or {}).items():
        for r in req:
            if r not in allnames:
                P('control_requires_missing_element', 'control %s requires %s which is not in the model' % (cn, r))


def against_shadow(s, sh, problems):
    def P(kind, msg):
        problems.append((kind, msg))

    def cmp(view, want, what):
        if view is not None and sorted(view) != sorted(want):
            extra = sorted(set(view) - set(want))
            miss = sorted(set(want) - set(view))
            P('view_differs_from_history', '%s: lists %s that do not exist / lacks %s that exist' % (what, extra[:8], miss[:8]))

    cmp(s.get('node_name_list'), sh.nodes, 'node_name_list')
    for t, key in (('Junction', 'junction_name_list'), ('Tank', 'tank_name_list'), ('Reservoir', 'reservoir_name_list')):
        cmp(s.get(key), [n for n, d in sh.nodes.items() if d['type'] == t], key)
    cmp(s.get('link_name_list'), sh.links, 'link_name_list')
    for t, key in (('Pipe', 'pipe_name_list'), ('Pump', 'pump_name_list'), ('Valve', 'valve_name_list')):
        cmp(s.get(key), [n for n, d in sh.links.items() if d['type'] == t], key)
    cmp(s.get('head_pump_name_list'), [n for n, d in sh.links.items() if d['sub'] == 'HEAD'], 'head_pump_name_list')
    cmp(s.get('power_pump_name_list'), [n for n, d in sh.links.items() if d['sub'] == 'POWER'], 'power_pump_name_list')
    for vt in VALVE_TYPES:
        cmp(s.get(vt.lower() + '_name_list'), [n for n, d in sh.links.items() if d['type'] == 'Valve' and d['sub'] == vt], vt.lower() + '_name_list')
    cmp(s.get('pattern_name_list'), sh.patterns, 'pattern_name_list')
    cmp(s.get('curve_name_list'), sh.curves, 'curve_name_list')
    cmp(s.get('source_name_list'), sh.sources, 'source_name_list')
    cmp(s.get('control_name_list'), sh.controls, 'control_name_list')
    ends = s.get('ends') or {}
    for ln, d in sh.links.items():
        if ln in ends and (ends[ln][0], ends[ln][1]) != (d['start'], d['end']):
            P('link_ends_differ_from_history', 'link %s runs %s -> %s, history says %s -> %s' % (ln, ends[ln][0], ends[ln][1], d['start'], d['end']))


# ------------------------------------------------------------------------------------------------
# the history driver
# ------------------------------------------------------------------------------------------------
def _start_model(rng, tier):
    import wntr
    from vlib.props import common
    r = rng.random()
    if r < 0.35:
        return wntr.network.WaterNetworkModel(), 'empty'
    if r < 0.75:
        from vlib.gen import net as gnet
        spec = gnet.gen_spec(rng, n_junc=(2, 8), n_tank=(0, 2), n_valve=(0, 2), p_leak=0.0)
        return gnet.build(spec), 'seeded'
    f = rng.choice(['Net1.inp', 'Net1.inp', 'Net2.inp', 'Net3.inp'] if tier == 'quick' else ['Net1.inp', 'Net2.inp', 'Net3.inp', 'Net6.inp', 'ky10.inp'])
    try:
        return common.load_example(f), f
    except Exception:
        return common.load_example('Net1.inp'), 'Net1.inp'


def run_case(c, rng):
    import wntr
    from wntr.network import controls as ctl
    from wntr.network.base import LinkStatus

    wn, start = _start_model(rng, c.tier)
    big = wn.num_nodes > 150
    sh = Shadow.from_model(wn)
    ops_log = []
    kinds = {}
    serial = [0]
    flags = {'removed': False, 'reassigned': False, 'refused': False}

    def fresh(prefix):
        serial[0] += 1
        return '%s_v%d' % (prefix, serial[0])

    def report(problems, op):
        seen = set()
        for kind, msg in problems:
            if (kind, msg) in seen:
                continue
            seen.add((kind, msg))
            c.violate(kind, 'after %s: %s' % (op, msg), ops=ops_log[-25:], start=start)

    def full_check(op):
        problems = []
        s = snapshot(wn, problems)
        invariant(s, problems)
        against_shadow(s, sh, problems)
        c.count('view_checks')
        c.count('links_for_node_compared', len(s.get('links_for_node') or {}))
        c.count('graph_compared')
        report(problems, op)
        return s

    def refusal_check(op, before):
        """The operation had to be refused: views and definition must be what they were."""
        problems = []
        after = snapshot(wn, problems)
        diff = [k for k in before if before[k] != after.get(k)]
        if diff:
            k = diff[0]
            problems.append(('refused_operation_changed_model', 'refused operation changed view %s: %s -> %s' % (
                k, json.dumps(before[k], default=str)[:300], json.dumps(after.get(k), default=str)[:300])))
        invariant(after, problems)
        against_shadow(after, sh, problems)
        report(problems, op)

    def pick(seq):
        seq = sorted(seq)
        return rng.choice(seq) if seq else None

    def pick_node(kind=None):
        return pick([n for n, d in sh.nodes.items() if kind is None or d['type'] == kind])

    # ---- operations: each returns (description, callable, expectation, shadow_update) ----------
    def do(desc, fn, expect, update=None, kind='op', dup_update=None):
        """expect: 'ok' | 'refuse' | 'either' (duplicate names: refuse-and-unchanged or replace)."""
        ops_log.append(desc)
        kinds[kind] = kinds.get(kind, 0) + 1
        c.count('operations')
        before = None
        if expect in ('refuse', 'either'):
            pr = []
            before = snapshot(wn, pr)
        try:
            fn()
            raised = None
        except Exception as e:   # noqa
            raised = e
            tb = traceback.format_exc()[-1200:]
        if expect == 'ok':
            if raised is not None:
                c.violate('valid_operation_raised', '%s raised %s: %s' % (desc, type(raised).__name__, raised), traceback=tb,
                          ops=ops_log[-25:], start=start)
                # state may be half-updated: judge the invariant only, then stop this history
                problems = []
                s = snapshot(wn, problems)
                invariant(s, problems)
                report(problems, desc + ' (which raised)')
                return 'abort'
            if update:
                update()
            full_check(desc)
        elif expect == 'refuse':
            c.count('refusals_expected')
            if raised is None:
                c.violate('in_use_removal_not_refused' if kind.startswith('remove') else 'invalid_operation_accepted',
                          '%s was accepted (expected to be refused)' % desc, ops=ops_log[-25:], start=start)
                return 'abort'
            flags['refused'] = True
            refusal_check(desc, before)
        else:   # either
            if raised is not None:
                refusal_check(desc + ' (refused)', before)
            else:
                if dup_update:
                    dup_update()
                full_check(desc + ' (accepted)')
        return None

    def op_add_junction():
        name = fresh('J')
        pat = pick(sh.patterns) if rng.random() < 0.5 else None
        def upd():
            sh.nodes[name] = {'type': 'Junction', 'patterns': [pat] if pat else [], 'head_pattern': None, 'vol_curve': None}
        return do('add_junction(%r, pattern=%r)' % (name, pat),
                  lambda: wn.add_junction(name, base_demand=0.01, demand_pattern=pat, elevation=5.0, coordinates=(1.0, 2.0)), 'ok', upd, 'add_node')

    def op_add_tank():
        name = fresh('T')
        vc = pick([k for k, t in sh.curves.items() if t == 'VOLUME']) if rng.random() < 0.5 else None
        def upd():
            sh.nodes[name] = {'type': 'Tank', 'patterns': [], 'head_pattern': None, 'vol_curve': vc}
        return do('add_tank(%r, vol_curve=%r)' % (name, vc),
                  lambda: wn.add_tank(name, elevation=10.0, init_level=2.0, min_level=1.0, max_level=4.0, diameter=10.0, vol_curve=vc),
                  'ok', upd, 'add_node')

    def op_add_reservoir():
        name = fresh('R')
        pat = pick(sh.patterns) if rng.random() < 0.5 else None
        def upd():
            sh.nodes[name] = {'type': 'Reservoir', 'patterns': [], 'head_pattern': pat, 'vol_curve': None}
        return do('add_reservoir(%r, head_pattern=%r)' % (name, pat), lambda: wn.add_reservoir(name, base_head=50.0, head_pattern=pat),
                  'ok', upd, 'add_node')

    def two_nodes(kind_ok=None):
        ns = sorted(n for n, d in sh.nodes.items() if kind_ok is None or d['type'] in kind_ok)
        if len(ns) < 2:
            return None, None
        a = rng.choice(ns)
        b = rng.choice([x for x in ns if x != a])
        return a, b

    def op_add_pipe():
        a, b = two_nodes()
        if a is None:
            return
        name = fresh('P')
        def upd():
            sh.links[name] = {'type': 'Pipe', 'sub': None, 'start': a, 'end': b, 'curve': None, 'speed_pattern': None}
        return do('add_pipe(%r, %r, %r)' % (name, a, b),
                  lambda: wn.add_pipe(name, a, b, length=100.0, diameter=0.3, roughness=100, check_valve=rng.random() < 0.2), 'ok', upd, 'add_link')

    def op_add_pump():
        a, b = two_nodes()
        if a is None:
            return
        name = fresh('PU')
        pat = pick(sh.patterns) if rng.random() < 0.4 else None
        heads = [k for k, t in sh.curves.items() if t == 'HEAD' or t is None]
        if heads and rng.random() < 0.6:
            cv = rng.choice(sorted(heads))
            def upd():
                sh.links[name] = {'type': 'Pump', 'sub': 'HEAD', 'start': a, 'end': b, 'curve': cv, 'speed_pattern': pat}
            return do('add_pump(%r, %r, %r, HEAD, %r, pattern=%r)' % (name, a, b, cv, pat),
                      lambda: wn.add_pump(name, a, b, 'HEAD', cv, 1.0, pat), 'ok', upd, 'add_link')
        def upd2():
            sh.links[name] = {'type': 'Pump', 'sub': 'POWER', 'start': a, 'end': b, 'curve': None, 'speed_pattern': pat}
        return do('add_pump(%r, %r, %r, POWER, 5000.0, pattern=%r)' % (name, a, b, pat),
                  lambda: wn.add_pump(name, a, b, 'POWER', 5000.0, 1.0, pat), 'ok', upd2, 'add_link')

    def op_add_valve():
        vt = rng.choice(VALVE_TYPES)
        a, b = two_nodes({'Junction'} if vt in ('PRV', 'PSV', 'FCV') else None)
        if a is None:
            return
        name = fresh('V')
        cv = None
        setting = 10.0
        if vt == 'GPV':
            hl = [k for k, t in sh.curves.items() if t == 'HEADLOSS' or t is None]
            if not hl:
                return
            cv = rng.choice(sorted(hl))
            setting = cv
        def upd():
            sh.links[name] = {'type': 'Valve', 'sub': vt, 'start': a, 'end': b, 'curve': cv, 'speed_pattern': None}
        return do('add_valve(%r, %r, %r, %s, setting=%r)' % (name, a, b, vt, setting),
                  lambda: wn.add_valve(name, a, b, 0.3, vt, 0.0, setting), 'ok', upd, 'add_link')

    def op_add_pattern():
        name = fresh('PAT')
        return do('add_pattern(%r)' % name, lambda: wn.add_pattern(name, [1.0, 0.5, 1.5]), 'ok', lambda: sh.patterns.add(name), 'add_pattern')

    def op_add_curve():
        name = fresh('CRV')
        t = rng.choice(CURVE_TYPES + [None])       # an untyped curve is typed by the registry when a pump / GPV starts to use it
        pts = {'HEAD': [(0.0, 40.0), (0.05, 30.0), (0.1, 5.0)], 'EFFICIENCY': [(0.0, 50.0), (0.1, 80.0)],
               'VOLUME': [(0.0, 0.0), (2.0, 100.0), (6.0, 400.0)], 'HEADLOSS': [(0.0, 0.0), (0.1, 5.0)],
               None: [(0.0, 40.0), (0.05, 30.0), (0.1, 5.0)]}[t]
        return do('add_curve(%r, %s)' % (name, t), lambda: wn.add_curve(name, t, pts), 'ok', lambda: sh.curves.__setitem__(name, t), 'add_curve')

    def op_add_source():
        n = pick_node()
        if n is None:
            return
        name = fresh('SRC')
        pat = pick(sh.patterns) if rng.random() < 0.6 else None
        return do('add_source(%r, %r, CONCEN, 1.0, %r)' % (name, n, pat), lambda: wn.add_source(name, n, 'CONCEN', 1.0, pat), 'ok',
                  lambda: sh.sources.__setitem__(name, {'node': n, 'pattern': pat}), 'add_source')

    def op_add_control():
        ln = pick(sh.links)
        if ln is None:
            return
        name = fresh('CTL')
        link = wn.get_link(ln)
        req = {('L', ln)}
        form = rng.random()
        act = ctl.ControlAction(link, 'status', rng.choice([LinkStatus.Closed, LinkStatus.Open]))
        tanks = [n for n, d in sh.nodes.items() if d['type'] == 'Tank']
        juncs = [n for n, d in sh.nodes.items() if d['type'] == 'Junction']
        def compound(cond):
            # AND / OR with a second (and sometimes a third) condition on some other node or link: every operand's object is required
            for _ in range(rng.choice([1, 1, 2])):
                if rng.random() < 0.5 and (tanks or juncs):
                    n2 = rng.choice(sorted(tanks + juncs))
                    c2 = ctl.ValueCondition(wn.get_node(n2), 'level' if n2 in tanks else 'pressure', rng.choice(['>', '<']), 5.0)
                    req.add(('N', n2))
                else:
                    l2 = pick(sh.links)
                    c2 = ctl.ValueCondition(wn.get_link(l2), 'flow', rng.choice(['>', '<']), 0.001)
                    req.add(('L', l2))
                first, second = (cond, c2) if rng.random() < 0.7 else (c2, cond)
                cond = (ctl.AndCondition if rng.random() < 0.6 else ctl.OrCondition)(first, second)
            c.count('compound_conditions')
            return cond

        def make(cond):
            if rng.random() < 0.4:
                cond = compound(cond)
                if rng.random() < 0.6:
                    return ctl.Rule(cond, [act], priority=3, name=name)
            return ctl.Control(cond, act, name=name)

        if form < 0.3 or (not tanks and not juncs):
            cond = ctl.SimTimeCondition(wn, '=', 3600.0 * rng.randint(1, 10))
            obj = make(cond)
        elif form < 0.6 and tanks:
            t = rng.choice(sorted(tanks))
            cond = ctl.ValueCondition(wn.get_node(t), 'level', '>', 3.0)
            req.add(('N', t))
            obj = make(cond)
        elif form < 0.8 and juncs:
            j = rng.choice(sorted(juncs))
            cond = ctl.ValueCondition(wn.get_node(j), 'pressure', '<', 10.0)
            req.add(('N', j))
            obj = make(cond)
        else:
            cond = ctl.SimTimeCondition(wn, '>=', 7200.0)
            other = pick(sh.links)
            act2 = ctl.ControlAction(wn.get_link(other), 'status', LinkStatus.Open)
            req.add(('L', other))
            obj = ctl.Rule(cond, [act], [act2], priority=3, name=name)
        return do('add_control(%r) requiring %s' % (name, sorted(req)), lambda: wn.add_control(name, obj), 'ok',
                  lambda: sh.controls.__setitem__(name, set(req)), 'add_control')

    def op_strand_node():
        # a node that keeps a non-link user (a source) and / or a control while all its links are taken away, then the attempt to
        # remove it: the registry knows more kinds of user than the links
        cand = [n for n in sh.nodes if sh.controls_requiring('N', n) or any(d['node'] == n for d in sh.sources.values())]
        n = pick(cand) if cand and rng.random() < 0.8 else pick_node()
        if n is None:
            return
        c.count('strand_node_sequences')
        for ln in [l for l, d in sorted(sh.links.items()) if n in (d['start'], d['end'])][:5]:
            if op_remove_link(ln, True) == 'abort' or c.violations:
                return 'abort'
        return op_remove_node(n, rng.random() < 0.8)

    def op_remove_node(n=None, with_control=None):
        n = pick_node() if n is None else n
        if n is None:
            return
        users = sh.node_users(n)
        ctrls = sh.controls_requiring('N', n)
        with_control = (rng.random() < 0.5) if with_control is None else with_control
        desc = 'remove_node(%r, with_control=%s) [users %s, controls %s]' % (n, with_control, users[:4], ctrls[:3])
        if users or (ctrls and not with_control):
            return do(desc, lambda: wn.remove_node(n, with_control=with_control), 'refuse', None, 'remove_refused')
        def upd():
            del sh.nodes[n]
            for cn in ctrls:
                sh.controls.pop(cn, None)
            flags['removed'] = True
            c.count('removals_ok')
        return do(desc, lambda: wn.remove_node(n, with_control=with_control), 'ok', upd, 'remove_node')

    def op_remove_link(ln=None, with_control=None):
        ln = pick(sh.links) if ln is None else ln
        if ln is None:
            return
        ctrls = sh.controls_requiring('L', ln)
        with_control = (rng.random() < 0.5) if with_control is None else with_control
        desc = 'remove_link(%r, with_control=%s) [%s %s, controls %s]' % (ln, with_control, sh.links[ln]['type'], sh.links[ln]['sub'], ctrls[:3])
        if ctrls and not with_control:
            return do(desc, lambda: wn.remove_link(ln, with_control=with_control), 'refuse', None, 'remove_refused')
        def upd():
            del sh.links[ln]
            for cn in ctrls:
                sh.controls.pop(cn, None)
            flags['removed'] = True
            c.count('removals_ok')
        return do(desc, lambda: wn.remove_link(ln, with_control=with_control), 'ok', upd, 'remove_link')

    def op_remove_pattern():
        p = pick(sh.patterns)
        if p is None:
            return
        users = sh.pattern_users(p)
        if str(wn.options.hydraulic.pattern) == p:
            return      # the default pattern: usage by option, not modelled
        desc = 'remove_pattern(%r) [users %s]' % (p, users[:4])
        if users:
            return do(desc, lambda: wn.remove_pattern(p), 'refuse', None, 'remove_refused')
        def upd():
            sh.patterns.discard(p)
            flags['removed'] = True
            c.count('removals_ok')
        return do(desc, lambda: wn.remove_pattern(p), 'ok', upd, 'remove_pattern')

    def op_remove_curve():
        cv = pick(sh.curves)
        if cv is None:
            return
        users = sh.curve_users(cv)
        desc = 'remove_curve(%r) [%s, users %s]' % (cv, sh.curves[cv], users[:4])
        if users:
            return do(desc, lambda: wn.remove_curve(cv), 'refuse', None, 'remove_refused')
        def upd():
            sh.curves.pop(cv)
            flags['removed'] = True
            c.count('removals_ok')
        return do(desc, lambda: wn.remove_curve(cv), 'ok', upd, 'remove_curve')

    def op_remove_source():
        sname = pick(sh.sources)
        if sname is None:
            return
        def upd():
            sh.sources.pop(sname)
            flags['removed'] = True
            c.count('removals_ok')
        return do('remove_source(%r)' % sname, lambda: wn.remove_source(sname), 'ok', upd, 'remove_source')

    def op_remove_control():
        cn = pick(sh.controls)
        if cn is None:
            return
        def upd():
            sh.controls.pop(cn)
            flags['removed'] = True
            c.count('removals_ok')
        return do('remove_control(%r)' % cn, lambda: wn.remove_control(cn), 'ok', upd, 'remove_control')

    def op_reassign_end():
        ln = pick(sh.links)
        if ln is None:
            return
        d = sh.links[ln]
        which = rng.choice(['start', 'end'])
        other = d['end'] if which == 'start' else d['start']
        restrict = {'Junction'} if d['sub'] in ('PRV', 'PSV', 'FCV') else None
        cands = [n for n, nd in sh.nodes.items() if n != other and (restrict is None or nd['type'] in restrict)]
        if not cands:
            return
        r = rng.random()
        new = d[which] if r < 0.2 else rng.choice(sorted(cands))
        if r > 0.92 and (restrict is None or sh.nodes[other]['type'] in restrict):
            new = other         # both ends on one node: the transient state of every end-swap (wntr.morph.reverse_link goes through it)
        def fn():
            setattr(wn.get_link(ln), which + '_node', wn.get_node(new))
        def upd():
            d[which] = new
            flags['reassigned'] = True
            c.count('reassignments')
            if new == d['start'] == d['end']:
                c.count('self_loops')
        return do('link %s.%s_node = %r (was %r)' % (ln, which, new, d[which]), fn, 'ok', upd, 'reassign_end')

    def op_reverse_link():
        ln = pick(sh.links)
        if ln is None:
            return
        d = sh.links[ln]
        if d['sub'] in ('PRV', 'PSV', 'FCV') and not (sh.nodes[d['start']]['type'] == sh.nodes[d['end']]['type'] == 'Junction'):
            return
        def fn():
            from wntr.morph.link import reverse_link
            reverse_link(wn, ln, return_copy=False)
        def upd():
            d['start'], d['end'] = d['end'], d['start']
            flags['reassigned'] = True
            c.count('reassignments')
            c.count('links_reversed')
        return do('morph.reverse_link(%r) [%s -> %s]' % (ln, d['start'], d['end']), fn, 'ok', upd, 'reverse_link')

    def op_reassign_ref():
        form = rng.random()
        if form < 0.25:
            r = pick_node('Reservoir')
            if r is None:
                return
            pat = pick(sh.patterns) if rng.random() < 0.75 else None
            def upd():
                sh.nodes[r]['head_pattern'] = pat
                flags['reassigned'] = True
                c.count('reassignments')
            return do('reservoir %s.head_pattern_name = %r (was %r)' % (r, pat, sh.nodes[r]['head_pattern']),
                      lambda: setattr(wn.get_node(r), 'head_pattern_name', pat), 'ok', upd, 'reassign_ref')
        if form < 0.5:
            pumps = [l for l, d in sh.links.items() if d['type'] == 'Pump']
            if not pumps:
                return
            pu = rng.choice(sorted(pumps))
            pat = pick(sh.patterns) if rng.random() < 0.75 else None
            def upd():
                sh.links[pu]['speed_pattern'] = pat
                flags['reassigned'] = True
                c.count('reassignments')
            return do('pump %s.speed_pattern_name = %r (was %r)' % (pu, pat, sh.links[pu]['speed_pattern']),
                      lambda: setattr(wn.get_link(pu), 'speed_pattern_name', pat), 'ok', upd, 'reassign_ref')
        if form < 0.65:
            hp = [l for l, d in sh.links.items() if d['sub'] == 'HEAD']
            heads = [k for k, t in sh.curves.items() if t == 'HEAD' or t is None]
            if not hp or not heads:
                return
            pu, cv = rng.choice(sorted(hp)), rng.choice(sorted(heads))
            def upd():
                sh.links[pu]['curve'] = cv
                flags['reassigned'] = True
                c.count('reassignments')
            return do('pump %s.pump_curve_name = %r (was %r)' % (pu, cv, sh.links[pu]['curve']),
                      lambda: setattr(wn.get_link(pu), 'pump_curve_name', cv), 'ok', upd, 'reassign_ref')
        if form < 0.8:
            t = pick_node('Tank')
            vols = [k for k, ty in sh.curves.items() if ty == 'VOLUME']
            if t is None:
                return
            cv = rng.choice(sorted(vols)) if vols and rng.random() < 0.75 else None
            def upd():
                sh.nodes[t]['vol_curve'] = cv
                flags['reassigned'] = True
                c.count('reassignments')
            return do('tank %s.vol_curve_name = %r (was %r)' % (t, cv, sh.nodes[t]['vol_curve']),
                      lambda: setattr(wn.get_node(t), 'vol_curve_name', cv), 'ok', upd, 'reassign_ref')
        if form < 0.9:
            g = [l for l, d in sh.links.items() if d['sub'] == 'GPV']
            hl = [k for k, ty in sh.curves.items() if ty == 'HEADLOSS' or ty is None]
            if not g or not hl:
                return
            v, cv = rng.choice(sorted(g)), rng.choice(sorted(hl))
            def upd():
                sh.links[v]['curve'] = cv
                flags['reassigned'] = True
                c.count('reassignments')
            return do('GPV %s.headloss_curve_name = %r (was %r)' % (v, cv, sh.links[v]['curve']),
                      lambda: setattr(wn.get_link(v), 'headloss_curve_name', cv), 'ok', upd, 'reassign_ref')
        j = pick_node('Junction')
        pat = pick(sh.patterns)
        if j is None or pat is None:
            return
        def upd():
            sh.nodes[j]['patterns'].append(pat)
            flags['reassigned'] = True
            c.count('reassignments')
        return do('junction %s.add_demand(0.002, %r, "extra")' % (j, pat), lambda: wn.get_node(j).add_demand(0.002, pat, 'extra'),
                  'ok', upd, 'reassign_ref')

    def op_duplicate_add():
        c.count('duplicate_adds')
        form = rng.random()
        if form < 0.5 and sh.nodes:
            name = pick_node()
            newt = rng.choice(['Junction', 'Tank', 'Reservoir'])
            def fn():
                if newt == 'Junction':
                    wn.add_junction(name, base_demand=0.0, elevation=1.0)
                elif newt == 'Tank':
                    wn.add_tank(name, elevation=1.0, init_level=2.0, min_level=1.0, max_level=3.0, diameter=5.0)
                else:
                    wn.add_reservoir(name, base_head=10.0)
            def dup():
                sh.nodes[name] = {'type': newt, 'patterns': [], 'head_pattern': None, 'vol_curve': None}
            return do('add_%s(%r) [name already used by a %s]' % (newt.lower(), name, sh.nodes[name]['type']), fn, 'either', None, 'duplicate_add', dup)
        if form < 0.85 and sh.links:
            name = pick(sh.links)
            a, b = two_nodes()
            if a is None:
                return
            old = sh.links[name]
            def dup():
                sh.links[name] = {'type': 'Pipe', 'sub': None, 'start': a, 'end': b, 'curve': None, 'speed_pattern': None}
            return do('add_pipe(%r, %r, %r) [name already used by a %s %s -> %s]' % (name, a, b, old['type'], old['start'], old['end']),
                      lambda: wn.add_pipe(name, a, b, length=10.0), 'either', None, 'duplicate_add', dup)
        if sh.controls:
            name = pick(sh.controls)
            ln = pick(sh.links)
            if ln is None:
                return
            obj = ctl.Control(ctl.SimTimeCondition(wn, '=', 3600.0), ctl.ControlAction(wn.get_link(ln), 'status', LinkStatus.Closed), name=name)
            return do('add_control(%r) [name already used]' % name, lambda: wn.add_control(name, obj), 'either', None, 'duplicate_add',
                      lambda: sh.controls.__setitem__(name, {('L', ln)}))

    def op_missing_node_add():
        a = pick_node()
        if a is None:
            return
        c.count('missing_node_adds')
        name = fresh('BAD')
        ghost = 'NO_SUCH_NODE'
        form = rng.random()
        if form < 0.4:
            fn = lambda: wn.add_pipe(name, a, ghost)     # noqa
            desc = 'add_pipe(%r, %r, %r)' % (name, a, ghost)
        elif form < 0.6:
            fn = lambda: wn.add_pipe(name, ghost, a)     # noqa
            desc = 'add_pipe(%r, %r, %r)' % (name, ghost, a)
        elif form < 0.8:
            fn = lambda: wn.add_pump(name, a, ghost, 'POWER', 1000.0)     # noqa
            desc = 'add_pump(%r, %r, %r)' % (name, a, ghost)
        else:
            fn = lambda: wn.add_valve(name, a, ghost, 0.3, 'TCV', 0.0, 5.0)     # noqa
            desc = 'add_valve(%r, %r, %r)' % (name, a, ghost)
        return do(desc + ' [end node does not exist]', fn, 'refuse', None, 'missing_node_add')

    table = [(op_add_junction, 8), (op_add_tank, 3), (op_add_reservoir, 3), (op_add_pipe, 10), (op_add_pump, 6), (op_add_valve, 6),
             (op_add_pattern, 5), (op_add_curve, 5), (op_add_source, 3), (op_add_control, 5), (op_remove_node, 9), (op_remove_link, 9),
             (op_remove_pattern, 5), (op_remove_curve, 5), (op_remove_source, 2), (op_remove_control, 3), (op_reassign_end, 8),
             (op_reassign_ref, 9), (op_duplicate_add, 3), (op_missing_node_add, 2), (op_strand_node, 3), (op_reverse_link, 3)]
    weights = [w for _, w in table]
    n_ops = rng.randint(10, 60) if c.tier == 'quick' else rng.randint(20, 120)
    if big:
        n_ops = min(n_ops, 25)
    full_check('start (%s)' % start)
    if not c.violations:
        for _ in range(n_ops):
            f = rng.choices(table, weights)[0][0]
            if f() == 'abort' or c.violations:     # later operations would only re-report the same damage
                break
    c.set_sig(start, ','.join('%s%d' % (k, min(v, 6)) for k, v in sorted(kinds.items())))
    c.nontrivial = flags['removed'] and flags['reassigned'] and flags['refused']
    c.sample = {'start': start, 'ops': ops_log[:12], 'n_ops': len(ops_log)}
