"""C08 - leaks discharge Cd*A*sqrt(2*g*p) only while active and only at positive pressure.

Events per reported step and leaking node: pressure, leak demand, demand, membership of t in the
configured window.  Histories: plain run; run / reset_initial_values / run; add_leak + remove_leak
before a run; run part 1 / remove_leak / continue.
"""
import math

from vlib.gen import net as gnet
from vlib.ref import hyd as ref
from vlib import simobs
from vlib.props import c01

ID = 'C08'
LEVEL = 'exploration'
RULE = ('seeded random networks with 1-4 leaks on junctions and tanks (area 1e-5..1e-2 m2, Cd 0.6-1, start/end on and off '
        'the hydraulic grid, open-ended, ending after the run), DD and PDD, low-head variants with negative pressures, '
        "report_timestep 'ALL' half of the time; histories: single run, run/reset/run, add+remove before run, "
        'run/remove_leak/continue; every leaking node x reported step judged; signature = structural class + history kind; '
        'non-trivial = at least one step with leak > 0 and one step with the leak off')
ASSUMPTIONS = ['window convention: active for start_time <= t < end_time (the start/end controls act at those instants)',
               'junctions that reference reachability calls isolated must report zero leak (they are zeroed, C09)',
               'tolerance 1e-6 m3/s (solver residual of the leak row) + 1e-9 relative']
FLOORS = {'quick': {'conclusive': 60, 'distinct_nontrivial': 30,
                    'counters': {'leak_node_steps': 1500, 'active_positive_steps': 500, 'inactive_steps': 400,
                                 'nonpositive_pressure_steps': 10, 'tank_leak_steps': 100, 'offgrid_events_checked': 30,
                                 'reset_rerun_cases': 10, 'remove_before_cases': 8, 'remove_continue_cases': 8}},
          'thorough': {'conclusive': 900, 'distinct_nontrivial': 400,
                       'counters': {'leak_node_steps': 25000, 'active_positive_steps': 8000, 'inactive_steps': 6000,
                                    'nonpositive_pressure_steps': 150, 'tank_leak_steps': 1500, 'offgrid_events_checked': 450,
                                    'reset_rerun_cases': 150, 'remove_before_cases': 120, 'remove_continue_cases': 120}}}
CASE_TIMEOUT = {'quick': 120, 'thorough': 300}
TOL = 1e-6


# appended to RULE in the evidence (vlib/runner.py)
RULE_ADDENDUM = 'Added in round 5: leaks whose start / end instants coincide exactly at an off-grid instant. Round 6: every tenth case is a rig with leaks at millimetre-to-centimetre pressures (junction just below the grade line, tank leaking at a level of a few cm).'

def n_cases(tier):
    return 200 if tier == 'quick' else 3000


def make_spec(c, rng):
    low = rng.random() < 0.2
    spec = gnet.gen_spec(rng, n_tank=(0, 2), n_valve=(0, 1), p_power_pump=0.03, p_pdd=0.4, p_report_all=0.5,
                         p_tank_pump=0.0, steps=(5, 14), n_junc=(3, 10) if c.tier == 'quick' else (3, 25))
    o = spec['options']
    hyd, dur = o['hydraulic_timestep'], o['duration']
    if low:   # low source heads: some junctions at negative pressure
        for r in spec['reservoirs']:
            if r['head'] > 60:
                r['head'] = gnet._round(rng.uniform(15, 45))
        for t in spec['tanks']:
            t['elevation'] = gnet._round(rng.uniform(20, 40))
    nodes = [j['name'] for j in spec['junctions']] + [t['name'] for t in spec['tanks']] * 2
    rng.shuffle(nodes)
    spec['leaks'] = []
    for nm in nodes[:rng.randint(1, 4)]:
        if any(l['node'] == nm for l in spec['leaks']):
            continue
        st = rng.choice([0, 0, hyd, 2 * hyd, hyd + rng.randint(1, hyd - 1), rng.randint(1, hyd - 1)])
        en = rng.choice([None, None, dur + hyd, st + hyd, st + 2 * hyd, st + hyd + rng.randint(1, hyd - 1), st + rng.randint(1, hyd - 1)])
        spec['leaks'].append({'node': nm, 'area': gnet._round(10 ** rng.uniform(-5, -2.3), 4),
                              'cd': rng.choice([0.75, 0.6, 1.0]), 'start': st, 'end': en})
    # leaks whose start / end instants coincide exactly (several leak controls due at one, mostly off-grid, instant): side stream
    import random as _random
    side = _random.Random(c.index * 2654435761 % (2 ** 31) + len(spec['leaks']))
    if len(spec['leaks']) >= 2 and side.random() < 0.4:
        a, b = spec['leaks'][0], spec['leaks'][1]
        t_off = hyd * side.randint(0, 2) + side.choice([side.randint(1, hyd - 1), hyd // 2 + 20, 500, 1700])
        how = side.choice(['start=start', 'start=end', 'end=end'])
        if how == 'start=start':
            a['start'] = b['start'] = t_off
            for l in (a, b):
                if l['end'] is not None and l['end'] <= t_off:
                    l['end'] = None
        elif how == 'start=end':
            a['start'], a['end'] = min(a['start'], max(0, t_off - hyd)), t_off
            b['start'] = t_off
            if b['end'] is not None and b['end'] <= t_off:
                b['end'] = None
        else:
            for l in (a, b):
                l['start'] = min(l['start'], max(0, t_off - hyd))
                l['end'] = t_off
    return spec


def run_rig(c, rng):
    """R - pipe - J(leak) with the junction a few millimetres to centimetres below the grade line, and a tank that leaks through
    its floor at a level of a few centimetres: the leak law at very low positive pressures (the smoothing band is 0.1 mm wide)."""
    import wntr
    wn = wntr.network.WaterNetworkModel()
    z = gnet._round(rng.uniform(5, 40), 3)
    dp = rng.choice([0.0005, 0.002, 0.01, 0.03, 0.045, 0.08, gnet._round(rng.uniform(0.0003, 0.2), 5)])
    wn.options.time.duration = 3 * 3600
    wn.options.time.hydraulic_timestep = 3600
    wn.options.time.report_timestep = 3600
    wn.options.hydraulic.demand_model = rng.choice(['DD', 'PDD'])
    wn.add_reservoir('R', base_head=z + dp)
    wn.add_junction('J', base_demand=0.0, elevation=z)
    wn.add_junction('K', base_demand=0.001, elevation=z - 30.0)
    wn.add_pipe('P1', 'R', 'J', length=5.0, diameter=1.0, roughness=140)
    wn.add_pipe('P2', 'R', 'K', length=100.0, diameter=0.3, roughness=120)
    lv = rng.choice([0.003, 0.01, 0.03, 0.045, 0.1])
    wn.add_tank('T', elevation=z - 10.0, init_level=lv, min_level=0.0, max_level=5.0, diameter=40.0)
    wn.add_pipe('P3', 'K', 'T', length=50.0, diameter=0.2, roughness=120, initial_status='CLOSED')
    leaks = {'J': {'node': 'J', 'area': gnet._round(10 ** rng.uniform(-5, -3), 6), 'cd': rng.choice([0.75, 0.6]), 'start': 0, 'end': None},
             'T': {'node': 'T', 'area': gnet._round(10 ** rng.uniform(-6, -5), 7), 'cd': 0.75, 'start': 0, 'end': None}}
    for n, l in leaks.items():
        wn.get_node(n).add_leak(wn, area=l['area'], discharge_coeff=l['cd'], start_time=0, end_time=None)
    sample = {'rig': 'low positive pressure', 'dp': dp, 'tank_level': lv, 'leaks': leaks, 'demand_model': wn.options.hydraulic.demand_model}
    c.sample = sample
    c.set_sig('rig', dp, lv, wn.options.hydraulic.demand_model)
    tr = simobs.run_wntr(wn, deep=False)
    if tr.exception is not None or not simobs.converged(tr):
        c.inconclusive('sim_failed: %s' % (type(tr.exception).__name__ if tr.exception else 'not_converged'))
        return
    c.count('low_pressure_rig_cases')
    check_leaks(c, wn, tr.results, leaks, sample, 'low-pressure rig')
    c.nontrivial = True


def run_case(c, rng):
    if c.index % 10 == 7:
        return run_rig(c, rng)
    spec = make_spec(c, rng)
    hist = ['single', 'single', 'reset_rerun', 'remove_before', 'remove_continue'][c.index % 5]
    sample = {'spec': spec, 'history': hist}
    c.sample = {'spec_summary': gnet.signature(spec), 'history': hist, 'leaks': spec['leaks']}
    c.set_sig(gnet.signature(spec), hist)
    try:
        wn = gnet.build(spec)
    except Exception as e:
        c.violate('add_leak_failed', 'building the model with leaks %s raised %s: %s' % (spec['leaks'], type(e).__name__, e), sample=sample)
        return
    leaks = {l['node']: l for l in spec['leaks']}
    has_tank_leak = any(n.startswith('T') for n in leaks)

    def run(label, expect_leaks, t_offset_ok=True):
        tr = simobs.run_wntr(wn, deep=False)
        if tr.exception is not None:
            if has_tank_leak and isinstance(tr.exception, KeyError):
                c.violate('tank_leak_keyerror', '%s: run_sim with a leak on tank raised KeyError(%s)' % (label, tr.exception),
                          traceback=tr.traceback, sample=sample)
            else:
                c.inconclusive('sim_failed: %s' % type(tr.exception).__name__)
            return None
        if not simobs.converged(tr):
            c.inconclusive('sim_failed: not_converged')
            return None
        check_leaks(c, wn, tr.results, expect_leaks, sample, label)
        return tr

    if hist == 'single':
        run('single run', leaks)
    elif hist == 'reset_rerun':
        if run('run 1', leaks) is None:
            return
        wn.reset_initial_values()
        if run('run 2 after reset_initial_values', leaks) is not None:
            c.count('reset_rerun_cases')
    elif hist == 'remove_before':
        gone = [n for n in leaks if rng.random() < 0.6] or list(leaks)[:1]
        for n in gone:
            wn.get_node(n).remove_leak(wn)
        left = [cn for cn in wn.control_name_list if any(cn.startswith(('junction' + g, 'tank' + g)) or (g in cn and 'Leak' in cn) for g in gone)]
        for n in gone:
            node = wn.get_node(n)
            for cn in (node._leak_start_control_name, node._leak_end_control_name):
                if cn in wn.control_name_list:
                    c.violate('leak_control_left', 'remove_leak(%s) left control %s in the model' % (n, cn), sample=sample)
        if run('run after remove_leak', {n: l for n, l in leaks.items() if n not in gone}) is not None:
            c.count('remove_before_cases')
    else:   # remove_continue
        o = spec['options']
        hyd, dur = o['hydraulic_timestep'], o['duration']
        pause = hyd * rng.randint(1, max(1, dur // hyd - 1))
        wn.options.time.duration = pause
        if run('part 1 (to %d s)' % pause, leaks) is None:
            return
        gone = [n for n in leaks if rng.random() < 0.7] or list(leaks)[:1]
        for n in gone:
            wn.get_node(n).remove_leak(wn)
        wn.options.time.duration = dur
        sample['pause'] = pause
        sample['removed'] = gone
        if run('part 2 after remove_leak at %d s' % pause, {n: l for n, l in leaks.items() if n not in gone}) is not None:
            c.count('remove_continue_cases')


def check_leaks(c, wn, res, leaks, sample, label):
    topo = ref.Topo(wn)
    P, L, S = res.node['pressure'], res.node['leak_demand'], res.link['status']
    times = list(L.index)
    if not times:
        return
    on = off = False
    all_report = isinstance(wn.options.time.report_timestep, str)
    for i, t in enumerate(times):
        closed = set(ln for ln in topo.links if S[ln].values[i] == 0)
        conn = topo.connected_nodes(closed)
        for name, node in wn.nodes():
            if node.node_type == 'Reservoir':
                continue
            lk = float(L[name].values[i])
            spec = leaks.get(name)
            active = spec is not None and spec['start'] <= t and (spec['end'] is None or t < spec['end'])
            if spec is None and lk == 0.0:
                continue
            c.count('leak_node_steps')
            if node.node_type == 'Tank':
                c.count('tank_leak_steps')
            p = float(P[name].values[i])
            wit = dict(node=name, t=t, pressure=p, leak=lk, leak_spec=spec, history=label, sample=sample)
            if not active or (node.node_type == 'Junction' and name not in conn):
                c.count('inactive_steps')
                off = True
                if lk != 0.0:
                    if spec is None:
                        kind, why = 'leak_after_remove', 'no leak is defined on this node (removed)'
                    elif not active:
                        kind, why = 'leak_outside_window', 'outside the window [%s, %s)' % (spec['start'], spec['end'])
                    else:
                        kind, why = 'leak_on_isolated_junction', 'junction is cut off from all sources'
                    c.violate(kind, '%s: node %s t=%s reports leak %.6g but %s' % (label, name, t, lk, why), **wit)
                continue
            cd, area = spec['cd'], spec['area']
            if p > 1e-4:
                c.count('active_positive_steps')
                want = cd * area * math.sqrt(2 * ref.G * p)
                if want > 0:
                    on = True
                if abs(lk - want) > TOL + 1e-9 * want:
                    c.violate('leak_law', '%s: node %s t=%s p=%.6f leak %.9g, Cd*A*sqrt(2gp)=%.9g' % (label, name, t, p, lk, want), want=want, **wit)
            elif p <= 0:
                c.count('nonpositive_pressure_steps')
                if abs(lk) > TOL + 1e-11 * abs(p):
                    c.violate('leak_at_nonpositive_pressure', '%s: node %s t=%s p=%.6f leak %.9g (expected 0)' % (label, name, t, p, lk), **wit)
            else:
                top = cd * area * math.sqrt(2 * ref.G * 1e-4)
                if not (-TOL <= lk <= top + TOL):
                    c.violate('leak_in_smoothing_band', '%s: node %s t=%s p=%.3g leak %.9g outside [0, %.3g]' % (label, name, t, p, lk, top), **wit)
    # off-grid window edges are solved instants (visible with report_timestep='ALL')
    if all_report:
        hyd = wn.options.time.hydraulic_timestep
        t0, t1 = times[0], times[-1]
        for name, spec in leaks.items():
            for ev in (spec['start'], spec['end']):
                if ev is None or ev % hyd == 0 or not (t0 < ev <= t1):
                    continue
                c.count('offgrid_events_checked')
                if ev not in times:
                    c.violate('leak_edge_not_a_step', "%s: leak edge at t=%s s of node %s is not a solved step (report_timestep='ALL' index has %s)" % (
                        label, ev, name, [x for x in times if abs(x - ev) <= hyd]), node=name, event=ev, history=label, sample=sample)
    c01.check_balance(c, wn, res, sample)
    if on and off:
        c.nontrivial = True
