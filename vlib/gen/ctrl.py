"""Control / rule specs -> WNTR control objects (public API only)."""

PRIO = {0: 0, 1: 1, 2: 2, 3: 3, 4: 4, 5: 5, 6: 6}


def _action(wn, a):
    from wntr.network import controls, LinkStatus
    obj = wn.get_link(a['target'])
    attr = a.get('attr', 'status')
    val = a['value']
    if attr == 'status':
        val = LinkStatus[val] if isinstance(val, str) else LinkStatus(val)
    return controls.ControlAction(obj, attr, val)


def _cond(wn, cs):
    from wntr.network import controls
    k = cs['kind']
    if k == 'simtime':
        return controls.SimTimeCondition(wn, cs.get('op', '='), cs['time'], repeat=cs.get('repeat', False))
    if k == 'clock':
        return controls.TimeOfDayCondition(wn, cs.get('op', '='), cs['time'], repeat=cs.get('repeat', True))
    if k == 'node':
        return controls.ValueCondition(wn.get_node(cs['source']), cs['attr'], cs['op'], cs['threshold'])
    if k == 'link':
        return controls.ValueCondition(wn.get_link(cs['source']), cs['attr'], cs['op'], cs['threshold'])
    if k == 'and':
        return controls.AndCondition(_cond(wn, cs['a']), _cond(wn, cs['b']))
    if k == 'or':
        return controls.OrCondition(_cond(wn, cs['a']), _cond(wn, cs['b']))
    raise ValueError(k)


def add_control(wn, cs):
    from wntr.network import controls
    kind = cs['kind']
    if kind == 'time':
        # what the INP reader builds for "LINK x s AT TIME t" / "AT CLOCKTIME c"
        act = _action(wn, cs)
        flag = 'CLOCK_TIME' if cs.get('clock') else 'SIM_TIME'
        c = controls.Control._time_control(wn, cs['time'], flag, bool(cs.get('daily', cs.get('clock', False))), act)
        if 'priority' in cs:
            c.update_priority(controls.ControlPriority(cs['priority']))
    elif kind == 'cond':
        act = _action(wn, cs)
        src = wn.get_node(cs['source'])
        c = controls.Control._conditional_control(src, cs['sattr'], cs['op'], cs['threshold'], act)
        if 'priority' in cs:
            c.update_priority(controls.ControlPriority(cs['priority']))
    elif kind == 'control':
        c = controls.Control(_cond(wn, cs['cond']), _action(wn, cs['then'][0]),
                             priority=controls.ControlPriority(cs.get('priority', 3)))
    elif kind == 'rule':
        c = controls.Rule(_cond(wn, cs['cond']), [_action(wn, a) for a in cs['then']],
                          [_action(wn, a) for a in cs.get('else', [])] or None,
                          priority=controls.ControlPriority(cs.get('priority', 3)), name=cs['name'])
    else:
        raise ValueError(kind)
    wn.add_control(cs['name'], c)
    return c
