"""G-net: seeded generator of well-formed, hydraulically sane water networks.

``gen_spec(rng, **profile)`` returns a plain JSON-able dict (the *spec*); ``build(spec)`` turns
it into a WaterNetworkModel through the public add_* API only.  Witnesses store the spec.
"""
import math

G = 9.81


def _round(x, n=6):
    return float(('%.' + str(n) + 'g') % x)


def default_profile():
    return dict(
        n_junc=(3, 14), p_chord=0.25, p_parallel=0.25, n_res=(1, 2), n_tank=(0, 2),
        p_pump_source=0.4, p_booster=0.15, n_valve=(0, 2), valve_types=('PRV', 'PSV', 'FCV', 'TCV'),
        p_cv=0.15, p_closed=0.1, p_minor=0.3, p_multi_demand=0.3, p_zero_demand=0.15,
        pump_curves=(1, 3), p_power_pump=0.12, p_vol_curve=0.25, p_res_pattern=0.2,
        p_pdd=0.3, p_leak=0.0, steps=(4, 16), hyd_steps=(600, 900, 1800, 3600),
        p_report_all=0.3, p_pattern_start=0.4, p_tank_reversed=0.3, p_tank_pump=0.0,
        p_pdd_override=0.3, p_tank_two_links=0.3,
    )


def gen_spec(rng, **over):
    pr = default_profile()
    pr.update(over)
    ri = lambda ab: rng.randint(ab[0], ab[1])
    n = ri(pr['n_junc'])
    spec = {'version': 1, 'junctions': [], 'reservoirs': [], 'tanks': [], 'pipes': [], 'pumps': [],
            'valves': [], 'patterns': {}, 'curves': {}, 'leaks': [], 'controls': [], 'name': 'gnet'}

    # ---- options
    hyd = rng.choice(pr['hyd_steps'])
    steps = ri(pr['steps'])
    pat_ts = rng.choice([hyd, hyd, 2 * hyd, 3600, 1800, 7200, 5400])
    if rng.random() < pr['p_report_all']:
        rep = 'ALL'
    else:
        rep = hyd * rng.choice([1, 1, 1, 2, 3])
        # a report step smaller than the hydraulic step (the simulators then shorten the hydraulic step): side stream, so that the
        # rest of the corpus stays what it was
        import random as _random
        r2 = _random.Random(hyd * 31 + steps * 7 + int(pat_ts))
        if rep == hyd and r2.random() < 0.12:
            k_ = r2.choice([2, 2, 3, 4])
            if hyd % k_ == 0 and hyd // k_ >= 60:
                rep = hyd // k_
    opt = {'hydraulic_timestep': hyd, 'pattern_timestep': pat_ts, 'report_timestep': rep,
           'duration': hyd * steps, 'rule_timestep': rng.choice([hyd, max(60, hyd // 10), 360, 300]),
           'pattern_start': 0, 'start_clocktime': 0,
           'demand_multiplier': rng.choice([1.0, 1.0, 0.7, 1.25, 1.6]),
           'demand_model': 'DD', 'minimum_pressure': 0.0, 'required_pressure': 0.07, 'pressure_exponent': 0.5}
    if rng.random() < pr['p_pattern_start']:
        opt['pattern_start'] = rng.choice([pat_ts, 2 * pat_ts, 3 * pat_ts + pat_ts // 2, 900, 4500, 7 * 3600])
    if rng.random() < 0.3:
        opt['start_clocktime'] = rng.choice([3600, 6 * 3600, 13 * 3600 + 1800, 23 * 3600])
    if rng.random() < pr['p_pdd']:
        opt['demand_model'] = 'PDD'
        opt['minimum_pressure'] = rng.choice([0.0, 0.0, 2.0, 5.0])
        opt['required_pressure'] = opt['minimum_pressure'] + rng.choice([10.0, 15.0, 20.0, 30.0])
        opt['pressure_exponent'] = 0.5
    spec['options'] = opt

    # ---- patterns
    npat = rng.randint(1, 3)
    for k in range(npat):
        ln = rng.choice([1, 2, 3, 4, 5, 6, 7, 8, 12, 24, 30])
        spec['patterns']['PAT%d' % (k + 1)] = [_round(rng.uniform(0.3, 1.8), 4) for _ in range(ln)]
    # multipliers that are exactly zero (demand switched off for a pattern step, also the first one): drawn from a side stream
    # so that everything else in the corpus stays what it was
    import random as _random
    for pn_, mult_ in spec['patterns'].items():
        r2 = _random.Random(int(sum(mult_) * 1e6) + len(mult_))
        if len(mult_) >= 2 and r2.random() < 0.2:
            idx = set(r2.sample(range(len(mult_)), min(len(mult_) - 1, r2.randint(1, 2))))
            if r2.random() < 0.5:
                idx.add(0)
            if len(idx) < len(mult_):
                for i_ in idx:
                    mult_[i_] = 0.0
    pat_names = list(spec['patterns'])

    # ---- junctions
    for i in range(n):
        dem = []
        if rng.random() >= pr['p_zero_demand']:
            nd = 1 if rng.random() >= pr['p_multi_demand'] else rng.randint(2, 3)
            for d in range(nd):
                dem.append({'base': _round(rng.uniform(0.0002, 0.004), 4),
                            'pattern': rng.choice(pat_names + [None]),
                            'category': rng.choice([None, 'dom', 'ind'])})
        j = {'name': 'J%d' % (i + 1), 'elevation': _round(rng.uniform(0, 40), 4), 'demands': dem,
             'coordinates': [_round(rng.uniform(0, 1000), 5), _round(rng.uniform(0, 1000), 5)]}
        if opt['demand_model'] == 'PDD' and rng.random() < pr['p_pdd_override']:
            j['minimum_pressure'] = rng.choice([0.0, 1.0, 3.0])
            j['required_pressure'] = j['minimum_pressure'] + rng.choice([8.0, 12.0, 25.0])
        spec['junctions'].append(j)

    # ---- pipes: spanning tree + chords + parallels
    def mkpipe(a, b, big=False):
        d = rng.choice([0.25, 0.3, 0.4, 0.5]) if big else rng.choice([0.1, 0.15, 0.2, 0.25, 0.3, 0.4])
        p = {'name': 'P%d' % (len(spec['pipes']) + 1), 'start': a, 'end': b,
             'length': _round(10 ** rng.uniform(1.3, 3.2), 4), 'diameter': d,
             'roughness': float(rng.choice([70, 90, 100, 110, 120, 130, 140])),
             'minor_loss': 0.0, 'status': 'OPEN', 'cv': False}
        if rng.random() < pr['p_minor']:
            p['minor_loss'] = _round(rng.choice([0.1, 0.5, 2.0, 8.0, 20.0]), 3)
        spec['pipes'].append(p)
        return p

    parent = {}
    for i in range(1, n):
        k = rng.randint(max(0, i - 3), i - 1) if rng.random() < 0.6 else rng.randint(0, i - 1)
        parent[i] = k
        a, b = 'J%d' % (k + 1), 'J%d' % (i + 1)
        p = mkpipe(a, b, big=(i < 4))
        p['tree'] = True
    nchord = sum(1 for _ in range(n) if rng.random() < pr['p_chord']) if n >= 3 else 0
    for _ in range(nchord):
        a, b = rng.sample(range(n), 2)
        mkpipe('J%d' % (a + 1), 'J%d' % (b + 1))
    if spec['pipes'] and rng.random() < pr['p_parallel']:
        for _ in range(rng.randint(1, 2)):
            q = rng.choice(spec['pipes'])
            a, b = (q['start'], q['end']) if rng.random() < 0.5 else (q['end'], q['start'])
            mkpipe(a, b)

    total_demand = sum(d['base'] for j in spec['junctions'] for d in j['demands']) * opt['demand_multiplier'] * 1.2
    total_demand = max(total_demand, 0.002)

    # ---- reservoirs (first one feeds J1)
    nres = ri(pr['n_res'])
    for r in range(nres):
        at = 'J1' if r == 0 else 'J%d' % rng.randint(1, n)
        via_pump = rng.random() < pr['p_pump_source']
        head = _round(rng.uniform(5, 30) if via_pump else rng.uniform(85, 125), 4)
        res = {'name': 'R%d' % (r + 1), 'head': head, 'pattern': None,
               'coordinates': [_round(rng.uniform(0, 1000), 5), _round(rng.uniform(0, 1000), 5)]}
        if rng.random() < pr['p_res_pattern']:
            pn = 'HPAT%d' % (r + 1)
            spec['patterns'][pn] = [_round(rng.uniform(0.95, 1.05), 4) for _ in range(rng.choice([2, 3, 4, 6]))]
            res['pattern'] = pn
        spec['reservoirs'].append(res)
        if via_pump:
            _add_pump(spec, rng, pr, res['name'], at, total_demand / nres, lift=rng.uniform(70, 100))
        else:
            p = mkpipe(res['name'], at, big=True)
            p['length'] = _round(rng.uniform(20, 300), 4)

    # ---- tanks
    ntank = ri(pr['n_tank'])
    for t in range(ntank):
        at = 'J%d' % rng.randint(1, n)
        maxl = _round(rng.uniform(4, 12), 3)
        minl = _round(rng.choice([0.0, 0.0, 0.5, 1.0]), 3)
        init = _round(rng.uniform(minl + 0.3, maxl - 0.3), 3)
        if rng.random() < 0.25:
            init = _round(rng.choice([minl + 0.02, maxl - 0.02]), 3)
        diam = _round(rng.choice([3.0, 5.0, 8.0, 12.0, 20.0]), 3)
        tk = {'name': 'T%d' % (t + 1), 'elevation': _round(rng.uniform(70, 95), 4), 'init_level': init,
              'min_level': minl, 'max_level': maxl, 'diameter': diam, 'min_vol': 0.0, 'vol_curve': None,
              'overflow': False,
              'coordinates': [_round(rng.uniform(0, 1000), 5), _round(rng.uniform(0, 1000), 5)]}
        if rng.random() < pr['p_vol_curve']:
            cn = 'VC%d' % (t + 1)
            # non-cylindrical: strictly increasing volume over [0, maxl+1]
            area = math.pi * diam ** 2 / 4.0
            lv = [0.0] + sorted(_round(rng.uniform(0.2, maxl), 3) for _ in range(rng.randint(1, 3))) + [maxl + 1.0]
            lv = sorted(set(lv))
            vol, pts = 0.0, []
            prev = 0.0
            for L in lv:
                vol += (L - prev) * area * rng.uniform(0.5, 1.5)
                prev = L
                pts.append([L, _round(vol, 8)])
            spec['curves'][cn] = {'type': 'VOLUME', 'points': pts}
            tk['vol_curve'] = cn
        spec['tanks'].append(tk)
        rev = rng.random() < pr['p_tank_reversed']
        a, b = (tk['name'], at) if rev else (at, tk['name'])
        p = mkpipe(a, b, big=True)
        p['length'] = _round(rng.uniform(20, 400), 4)
        if rng.random() < pr['p_tank_two_links']:
            at2 = 'J%d' % rng.randint(1, n)
            a, b = (tk['name'], at2) if rng.random() < 0.5 else (at2, tk['name'])
            p2 = mkpipe(a, b, big=True)
            if rng.random() < 0.4:
                p2['cv'] = True
        if rng.random() < pr['p_tank_pump']:
            _add_pump(spec, rng, pr, at, tk['name'], total_demand * 0.5, lift=rng.uniform(10, 40))

    # ---- boosters / valves replace some junction-junction tree pipes (oriented away from J1)
    tree = [p for p in spec['pipes'] if p.get('tree')]
    rng.shuffle(tree)
    nval = ri(pr['n_valve'])
    for p in tree:
        if nval <= 0:
            break
        vt = rng.choice(pr['valve_types'])
        spec['pipes'].remove(p)
        v = {'name': 'V%d' % (len(spec['valves']) + 1), 'start': p['start'], 'end': p['end'],
             'diameter': rng.choice([0.15, 0.2, 0.3]), 'type': vt, 'minor_loss': rng.choice([0.0, 0.0, 1.0, 5.0]),
             'status': rng.choice(['ACTIVE', 'ACTIVE', 'ACTIVE', 'OPEN', 'CLOSED'])}
        if vt == 'PRV':
            v['setting'] = _round(rng.uniform(15, 70), 4)
        elif vt == 'PSV':
            v['setting'] = _round(rng.uniform(20, 90), 4)
        elif vt == 'FCV':
            v['setting'] = _round(total_demand * rng.choice([0.05, 0.2, 0.5, 3.0]), 4)
        else:
            v['setting'] = _round(rng.choice([0.5, 5.0, 50.0, 500.0]), 4)
        spec['valves'].append(v)
        nval -= 1
    tree = [p for p in spec['pipes'] if p.get('tree')]
    if tree and rng.random() < pr['p_booster']:
        p = rng.choice(tree)
        spec['pipes'].remove(p)
        _add_pump(spec, rng, pr, p['start'], p['end'], total_demand * 0.5, lift=rng.uniform(10, 40))

    # ---- check valves / closed pipes (never on tree edges adjacent to J1's reservoir feed to keep a source)
    for p in spec['pipes']:
        if p['start'].startswith('R') or p['end'].startswith('R'):
            continue
        if rng.random() < pr['p_cv']:
            p['cv'] = True
        elif rng.random() < pr['p_closed']:
            p['status'] = 'CLOSED'

    # ---- leaks
    if pr['p_leak'] > 0:
        dur = opt['duration']
        cand = [j['name'] for j in spec['junctions']] + [t['name'] for t in spec['tanks']]
        for nm in cand:
            if rng.random() < pr['p_leak'] * (3.0 if nm.startswith('T') else 1.0):
                st = rng.choice([0, 0, hyd, 2 * hyd, hyd + hyd // 3, 1234])
                en = rng.choice([None, None, dur - hyd, dur // 2 + 77, st + hyd, st + 2 * hyd + 91])
                if en is not None and en <= st:
                    en = st + hyd
                spec['leaks'].append({'node': nm, 'area': _round(10 ** rng.uniform(-5, -3), 4),
                                      'cd': rng.choice([0.75, 0.6, 1.0]), 'start': st, 'end': en})
    for p in spec['pipes']:
        p.pop('tree', None)
    # side stream seeded by the content drawn so far (the main stream, and with it the rest of the corpus, stays what it was):
    # any second of the day as start clock time, the noon and midnight hours in particular; and
    # options.time.pattern_interpolation (WNTRSimulator only): multipliers move linearly inside a pattern step
    import json as _json
    import zlib as _zlib
    r3 = _random.Random(_zlib.crc32(_json.dumps(spec, sort_keys=True, default=str).encode()))
    if opt['start_clocktime'] and r3.random() < 0.5:
        opt['start_clocktime'] = r3.choice([12 * 3600, 12 * 3600 + 1800, 12 * 3600 + 3599, 1800, 59, 11 * 3600 + 3540, 23 * 3600 + 3599,
                                            r3.randrange(0, 86400), 60 * r3.randrange(0, 1440)])
    opt['pattern_interpolation'] = r3.random() < 0.12
    # Tank.overflow: an EPANET 2.2 option that the WNTRSimulator does not model (a full tank closes its inlets whatever it says)
    for t_ in spec['tanks']:
        t_['overflow'] = r3.random() < 0.2
    return spec


def add_isolation_schedule(spec, rng, with_leak=0.6, n=1):
    """Time controls that close every link around a junction (cutting it, and possibly a whole
    sub-tree, off from all sources) and re-open them later; optionally a leak that is active then."""
    o = spec['options']
    hyd, dur = o['hydraulic_timestep'], o['duration']
    links = spec['pipes'] + spec['pumps'] + spec['valves']
    juncs = [j['name'] for j in spec['junctions']]
    picked = []
    for _ in range(n):
        j = rng.choice(juncs)
        if any(x['junction'] == j for x in picked) or any(cs['name'].startswith('iso_close_%s_' % j) for cs in spec['controls']):
            continue
        inc = [l for l in links if j in (l['start'], l['end'])]
        if not inc or len(inc) > 4:
            continue
        t1 = rng.choice([0, hyd, 2 * hyd, hyd + rng.randint(1, hyd - 1)])
        t2 = rng.choice([None, t1 + hyd, t1 + 2 * hyd, t1 + hyd + rng.randint(1, hyd - 1)])
        if t1 >= dur:
            t1 = hyd
        some_open_later = rng.random() < 0.3   # re-open only part of the links
        for k, l in enumerate(inc):
            if any(cs['name'] in ('iso_close_%s_%s' % (j, l['name']), 'iso_open_%s_%s' % (j, l['name'])) for cs in spec['controls']):
                continue
            if t1 == 0 and l['name'].startswith('P') and not l['name'].startswith('PU'):
                l['status'] = 'CLOSED'
            else:
                spec['controls'].append({'kind': 'time', 'name': 'iso_close_%s_%s' % (j, l['name']), 'time': t1,
                                         'target': l['name'], 'attr': 'status', 'value': 'CLOSED'})
            if t2 is not None and t2 <= dur and not (some_open_later and k > 0):
                spec['controls'].append({'kind': 'time', 'name': 'iso_open_%s_%s' % (j, l['name']), 'time': t2,
                                         'target': l['name'], 'attr': 'status', 'value': 'OPEN'})
        if rng.random() < with_leak and not any(lk['node'] == j for lk in spec['leaks']):
            st = rng.choice([0, 0, max(0, t1 - hyd), max(0, t1 - 7)])
            en = rng.choice([None, None, (t2 or dur) + hyd, t1 + hyd // 2])
            spec['leaks'].append({'node': j, 'area': _round(10 ** rng.uniform(-4.5, -3), 4), 'cd': 0.75,
                                  'start': st, 'end': en})
        picked.append({'junction': j, 'close': t1, 'open': t2})
    spec['isolation'] = picked
    return picked


def add_valve_cut(spec, rng):
    """Replace one open pipe whose far side has no tank or reservoir by a valve that starts CLOSED and is brought back by a
    control that changes its *setting* (the simulator's hidden companion then sets status Active); sometimes closed again later.
    -> {'valve', 'activate', 'close', 'nodes'} or None"""
    o = spec['options']
    hyd, dur = o['hydraulic_timestep'], o['duration']
    links = spec['pipes'] + spec['pumps'] + spec['valves']
    sources = set(x['name'] for x in spec['reservoirs'] + spec['tanks'])
    juncs = set(j['name'] for j in spec['junctions'])
    used = set(cs.get('target') for cs in spec['controls']) | \
        set(a['target'] for cs in spec['controls'] if cs['kind'] == 'rule' for a in cs['then'] + cs.get('else', []))
    cands = []
    for p in spec['pipes']:
        if p.get('cv') or p.get('status') == 'CLOSED' or p['name'] in used:
            continue
        adj = {}
        for l in links:
            if l is p:
                continue
            adj.setdefault(l['start'], set()).add(l['end'])
            adj.setdefault(l['end'], set()).add(l['start'])
        for side, other in ((p['end'], p['start']), (p['start'], p['end'])):
            seen, stack = {side}, [side]
            while stack:
                x = stack.pop()
                for y in adj.get(x, ()):
                    if y not in seen:
                        seen.add(y)
                        stack.append(y)
            if seen & sources or other in seen:
                continue
            cands.append((p, side, other, sorted(seen)))
    if not cands:
        return None
    p, side, other, nodes = rng.choice(cands)
    both_j = p['start'] in juncs and p['end'] in juncs
    vt = rng.choice(['TCV', 'TCV', 'TCV', 'PRV', 'FCV']) if both_j else 'TCV'
    name = 'V%d' % (len(spec['valves']) + 1)
    while any(v['name'] == name for v in spec['valves']):
        name += 'x'
    setting0, setting1 = {'TCV': (5.0, rng.choice([0.5, 20.0, 300.0])), 'PRV': (150.0, rng.choice([120.0, 200.0])),
                          'FCV': (0.5, rng.choice([0.2, 1.0]))}[vt]
    spec['pipes'].remove(p)
    spec['valves'].append({'name': name, 'start': other, 'end': side, 'diameter': p['diameter'], 'type': vt, 'minor_loss': rng.choice([0.0, 1.0]),
                           'setting': setting0, 'status': 'CLOSED'})
    nsteps = max(1, int(dur // hyd))
    t1 = hyd * rng.randint(1, max(1, nsteps - 1)) + rng.choice([0, 0, hyd // 2])
    if rng.random() < 0.7:
        spec['controls'].append({'kind': 'time', 'name': 'cut_set_%s' % name, 'time': t1, 'target': name, 'attr': 'setting', 'value': setting1})
    else:
        spec['controls'].append({'kind': 'rule', 'name': 'cut_set_%s' % name, 'priority': 3, 'cond': {'kind': 'simtime', 'op': '>=', 'time': t1},
                                 'then': [{'target': name, 'attr': 'setting', 'value': setting1}]})
    t2 = None
    if rng.random() < 0.4:
        t2 = t1 + hyd * rng.randint(1, 3)
        if t2 <= dur:
            spec['controls'].append({'kind': 'time', 'name': 'cut_close_%s' % name, 'time': t2, 'target': name, 'attr': 'status', 'value': 'CLOSED'})
    z = {'valve': name, 'type': vt, 'activate': t1, 'close': t2, 'nodes': nodes}
    spec['valve_cut'] = z
    return z


def add_valve_station(spec, rng):
    """Replace one open pipe whose far side has no tank or reservoir by a control-valve station: an Active TCV / PRV / FCV with a
    normally closed by-pass pipe parallel to it (sometimes opened for a while by time controls).  -> {'valve', 'bypass', 'nodes'} or None"""
    o = spec['options']
    hyd, dur = o['hydraulic_timestep'], o['duration']
    links = spec['pipes'] + spec['pumps'] + spec['valves']
    sources = set(x['name'] for x in spec['reservoirs'] + spec['tanks'])
    juncs = set(j['name'] for j in spec['junctions'])
    used = set(cs.get('target') for cs in spec['controls']) | \
        set(a['target'] for cs in spec['controls'] if cs['kind'] == 'rule' for a in cs['then'] + cs.get('else', []))
    cands = []
    for p in spec['pipes']:
        if p.get('cv') or p.get('status') == 'CLOSED' or p['name'] in used or not (p['start'] in juncs and p['end'] in juncs):
            continue
        if any(l is not p and set((l['start'], l['end'])) == set((p['start'], p['end'])) for l in links):
            continue
        adj = {}
        for l in links:
            if l is p:
                continue
            adj.setdefault(l['start'], set()).add(l['end'])
            adj.setdefault(l['end'], set()).add(l['start'])
        for side, other in ((p['end'], p['start']), (p['start'], p['end'])):
            seen, stack = {side}, [side]
            while stack:
                x = stack.pop()
                for y in adj.get(x, ()):
                    if y not in seen:
                        seen.add(y)
                        stack.append(y)
            if seen & sources or other in seen:
                continue
            cands.append((p, side, other, sorted(seen)))
    if not cands:
        return None
    p, side, other, nodes = rng.choice(cands)
    vt = rng.choice(['TCV', 'TCV', 'PRV', 'FCV'])
    name = 'V%d' % (len(spec['valves']) + 1)
    while any(v['name'] == name for v in spec['valves']):
        name += 'x'
    demand_in = sum(d['base'] for j in spec['junctions'] if j['name'] in nodes for d in j['demands'])
    setting = {'TCV': rng.choice([2.0, 20.0, 100.0]), 'PRV': rng.choice([15.0, 25.0, 40.0]), 'FCV': _round(max(1e-4, demand_in * rng.choice([0.5, 0.8])), 6)}[vt]
    spec['pipes'].remove(p)
    spec['valves'].append({'name': name, 'start': other, 'end': side, 'diameter': p['diameter'], 'type': vt, 'minor_loss': 0.0,
                           'setting': setting, 'status': 'ACTIVE'})
    bypass = dict(p, name='PBY%d' % (len(spec['pipes']) + 1), start=other, end=side, status='CLOSED', cv=False)
    bypass.pop('tree', None)
    spec['pipes'].append(bypass)
    if rng.random() < 0.5:
        nsteps = max(1, int(dur // hyd))
        t1 = hyd * rng.randint(1, max(1, nsteps - 1))
        t2 = t1 + hyd * rng.randint(1, 2)
        spec['controls'].append({'kind': 'time', 'name': 'bypass_open_%s' % name, 'time': t1, 'target': bypass['name'], 'attr': 'status', 'value': 'OPEN'})
        if t2 <= dur:
            spec['controls'].append({'kind': 'time', 'name': 'bypass_close_%s' % name, 'time': t2, 'target': bypass['name'], 'attr': 'status', 'value': 'CLOSED'})
    z = {'valve': name, 'type': vt, 'bypass': bypass['name'], 'nodes': nodes}
    spec['valve_station'] = z
    return z


def add_zone_isolation(spec, rng, prefer_pump=0.8, make_pump=0.5):
    """Time controls that close one open pipe whose far side (junctions only, at least one link inside: a booster pump, a valve,
    pipes) then has no path to any tank or reservoir, and re-open it later.  -> {'pipe', 'close', 'open', 'nodes', 'links'} or None"""
    o = spec['options']
    hyd, dur = o['hydraulic_timestep'], o['duration']
    links = spec['pipes'] + spec['pumps'] + spec['valves']
    sources = set(x['name'] for x in spec['reservoirs'] + spec['tanks'])
    used = set(cs.get('target') for cs in spec['controls']) | \
        set(a['target'] for cs in spec['controls'] if cs['kind'] == 'rule' for a in cs['then'] + cs.get('else', []))
    cands = []
    for p in spec['pipes']:
        if p.get('cv') or p.get('status') == 'CLOSED' or p['name'] in used:
            continue
        adj = {}
        for l in links:
            if l is p:
                continue
            adj.setdefault(l['start'], set()).add(l['end'])
            adj.setdefault(l['end'], set()).add(l['start'])
        for side in (p['start'], p['end']):
            seen, stack = {side}, [side]
            while stack:
                x = stack.pop()
                for y in adj.get(x, ()):
                    if y not in seen:
                        seen.add(y)
                        stack.append(y)
            if seen & sources or (p['start'] in seen and p['end'] in seen):
                continue
            inside = [l['name'] for l in links if l is not p and l['start'] in seen and l['end'] in seen]
            if inside:
                cands.append((p, sorted(seen), inside))
    if not cands:
        return None
    with_pump = [x for x in cands if any(nm.startswith(('PU', 'V')) for nm in x[2])]      # a booster pump or a control valve inside the zone
    p, nodes, inside = rng.choice(with_pump if with_pump and rng.random() < prefer_pump else cands)
    if not any(nm.startswith('PU') for nm in inside) and rng.random() < make_pump:
        # turn a pipe of the zone into a booster pump
        inner = [q for q in spec['pipes'] if q['name'] in inside and not q.get('cv') and q.get('status') != 'CLOSED' and q['name'] not in used]
        if inner:
            q = rng.choice(inner)
            spec['pipes'].remove(q)
            pr = default_profile()
            qd = sum(d['base'] for j in spec['junctions'] for d in j['demands']) * 0.3
            _add_pump(spec, rng, pr, q['start'], q['end'], qd, lift=rng.uniform(10, 40))
            inside = [nm for nm in inside if nm != q['name']] + [spec['pumps'][-1]['name']]
    nsteps = max(1, int(dur // hyd))
    t1 = hyd * rng.randint(0, max(0, nsteps - 2)) + rng.choice([0, 0, 1, hyd // 2])
    t2 = t1 + hyd * rng.randint(1, 3) + rng.choice([0, 0, 0, -1, 1, hyd // 3])
    if t1 == 0:
        p['status'] = 'CLOSED'
    else:
        spec['controls'].append({'kind': 'time', 'name': 'zone_close_%s' % p['name'], 'time': t1, 'target': p['name'], 'attr': 'status', 'value': 'CLOSED'})
    if t2 <= dur:
        spec['controls'].append({'kind': 'time', 'name': 'zone_open_%s' % p['name'], 'time': t2, 'target': p['name'], 'attr': 'status', 'value': 'OPEN'})
    z = {'pipe': p['name'], 'close': t1, 'open': t2 if t2 <= dur else None, 'nodes': nodes, 'links': inside}
    spec['zone_isolation'] = z
    return z


def _add_pump(spec, rng, pr, a, b, qd, lift):
    name = 'PU%d' % (len(spec['pumps']) + 1)
    qd = max(qd, 0.001)
    if rng.random() < pr['p_power_pump']:
        spec['pumps'].append({'name': name, 'start': a, 'end': b, 'type': 'POWER',
                              'power': _round(1000 * G * qd * lift * rng.uniform(0.8, 1.5), 5), 'status': 'OPEN'})
        return
    lo, hi = pr['pump_curves']
    npts = rng.choice([k for k in (1, 2, 3) if lo <= k <= hi] or [1])
    cn = 'HC%d' % (len(spec['pumps']) + 1)
    qd = _round(qd * rng.uniform(1.0, 2.5), 4)
    hd = _round(lift, 4)
    if npts == 1:
        pts = [[qd, hd]]
    elif npts == 2:
        pts = [[_round(qd * rng.uniform(0.2, 0.6), 4), _round(hd * rng.uniform(1.1, 1.3), 4)], [qd, hd]]
    else:
        pts = [[0.0, _round(hd * rng.uniform(1.2, 1.5), 4)], [qd, hd],
               [_round(qd * rng.uniform(1.6, 2.4), 4), _round(hd * rng.uniform(0.0, 0.5), 4)]]
    spec['curves'][cn] = {'type': 'HEAD', 'points': pts}
    spec['pumps'].append({'name': name, 'start': a, 'end': b, 'type': 'HEAD', 'curve': cn, 'status': 'OPEN'})


def build(spec, wntr=None, reset=True):
    if wntr is None:
        import wntr
    wn = wntr.network.WaterNetworkModel()
    wn.name = spec.get('name', 'gnet')
    o = spec['options']
    wn.options.time.hydraulic_timestep = o['hydraulic_timestep']
    wn.options.time.pattern_timestep = o['pattern_timestep']
    wn.options.time.report_timestep = o['report_timestep']
    wn.options.time.duration = o['duration']
    wn.options.time.rule_timestep = o['rule_timestep']
    wn.options.time.pattern_start = o['pattern_start']
    wn.options.time.start_clocktime = o['start_clocktime']
    wn.options.time.pattern_interpolation = bool(o.get('pattern_interpolation', False))
    wn.options.time.quality_timestep = min(300, o['hydraulic_timestep'])
    wn.options.hydraulic.demand_multiplier = o['demand_multiplier']
    wn.options.hydraulic.demand_model = o['demand_model']
    wn.options.hydraulic.minimum_pressure = o['minimum_pressure']
    wn.options.hydraulic.required_pressure = o['required_pressure']
    wn.options.hydraulic.pressure_exponent = o['pressure_exponent']
    for k, v in o.get('extra_hydraulic', {}).items():
        setattr(wn.options.hydraulic, k, v)
    for name, mult in spec['patterns'].items():
        wn.add_pattern(name, list(mult))
    for name, c in spec['curves'].items():
        wn.add_curve(name, c['type'], [tuple(p) for p in c['points']])
    for j in spec['junctions']:
        dem = j['demands']
        if dem:
            d0 = dem[0]
            wn.add_junction(j['name'], base_demand=d0['base'], demand_pattern=d0['pattern'],
                            elevation=j['elevation'], coordinates=tuple(j['coordinates']),
                            demand_category=d0['category'])
            jn = wn.get_node(j['name'])
            for d in dem[1:]:
                jn.add_demand(d['base'], d['pattern'], d['category'])
        else:
            wn.add_junction(j['name'], base_demand=0.0, elevation=j['elevation'],
                            coordinates=tuple(j['coordinates']))
        jn = wn.get_node(j['name'])
        for a in ('minimum_pressure', 'required_pressure', 'pressure_exponent'):
            if a in j:
                setattr(jn, a, j[a])
    for r in spec['reservoirs']:
        wn.add_reservoir(r['name'], base_head=r['head'], head_pattern=r['pattern'],
                         coordinates=tuple(r['coordinates']))
    for t in spec['tanks']:
        wn.add_tank(t['name'], elevation=t['elevation'], init_level=t['init_level'], min_level=t['min_level'],
                    max_level=t['max_level'], diameter=t['diameter'], min_vol=t['min_vol'],
                    vol_curve=t['vol_curve'], overflow=t.get('overflow', False),
                    coordinates=tuple(t['coordinates']))
    for p in spec['pipes']:
        wn.add_pipe(p['name'], p['start'], p['end'], length=p['length'], diameter=p['diameter'],
                    roughness=p['roughness'], minor_loss=p['minor_loss'], initial_status=p['status'],
                    check_valve=p['cv'])
        if p.get('vertices'):
            wn.get_link(p['name']).vertices = [tuple(v) for v in p['vertices']]
    for p in spec['pumps']:
        if p['type'] == 'POWER':
            wn.add_pump(p['name'], p['start'], p['end'], 'POWER', p['power'], initial_status=p['status'])
        else:
            wn.add_pump(p['name'], p['start'], p['end'], 'HEAD', p['curve'], initial_status=p['status'])
    for v in spec['valves']:
        wn.add_valve(v['name'], v['start'], v['end'], diameter=v['diameter'], valve_type=v['type'],
                     minor_loss=v['minor_loss'], initial_setting=v['setting'], initial_status=v['status'])
    for lk in spec['leaks']:
        wn.get_node(lk['node']).add_leak(wn, area=lk['area'], discharge_coeff=lk['cd'],
                                         start_time=lk['start'], end_time=lk['end'])
    from . import ctrl
    for cs in spec.get('controls', []):
        ctrl.add_control(wn, cs)
    if reset:
        # add_pump/add_valve do not copy initial_status into the run-time status (add_pipe does);
        # the documented way to start from the initial conditions is reset_initial_values()
        wn.reset_initial_values()
    return wn


def signature(spec):
    """Coarse structural class of a spec (for distinct_nontrivial)."""
    o = spec['options']
    nj = len(spec['junctions'])
    np_ = len(spec['pipes'])
    loops = np_ + len(spec['pumps']) + len(spec['valves']) - (nj + len(spec['tanks']) + len(spec['reservoirs'])) + 1
    pairs = {}
    for l in spec['pipes'] + spec['pumps'] + spec['valves']:
        k = tuple(sorted((l['start'], l['end'])))
        pairs[k] = pairs.get(k, 0) + 1
    par = sum(1 for v in pairs.values() if v > 1)
    return 'j%d.p%d.l%d.par%d.r%d.t%d.pu%s.v%s.cv%d.cl%d.%s.h%d.ps%d.lk%d.c%d' % (
        nj, np_, loops, par, len(spec['reservoirs']), len(spec['tanks']),
        ''.join(sorted(p['type'][0] for p in spec['pumps'])), ''.join(sorted(v['type'][:2] for v in spec['valves'])),
        sum(1 for p in spec['pipes'] if p['cv']), sum(1 for p in spec['pipes'] if p['status'] == 'CLOSED'),
        o['demand_model'], o['hydraulic_timestep'], o['pattern_start'], len(spec['leaks']), len(spec.get('controls', [])))
