"""G-model: seeded generator of API-constructible WaterNetworkModels for the I/O properties.

No hydraulic sanity is attempted; what matters is coverage of element kinds, attributes, options,
controls and rules.  Everything is built through the public API, and the list of calls is kept as
the witness.  `inp=True` restricts the model to what an EPANET INP file can represent (the C12
statement's exclusions) and draws values that the writer's precision can carry.
"""
import math


def sig(x, n):
    """Round to n significant digits."""
    if x == 0:
        return 0.0
    return float(('%.' + str(n - 1) + 'e') % x)


class Gen(object):
    def __init__(self, rng, inp=False, size=(2, 9), leaks=True):
        self.rng = rng
        self.inp = inp
        self.size = size
        self.leaks = leaks and not inp
        self.log = []
        self.features = set()

    # value helpers -------------------------------------------------------------------------
    def val(self, lo, hi, digits=4, log=False):
        r = self.rng
        if log:
            x = 10 ** r.uniform(math.log10(lo), math.log10(hi))
        else:
            x = r.uniform(lo, hi)
        return sig(x, digits)

    def maybe(self, p):
        return self.rng.random() < p

    def or_zero(self, x, p=0.25):
        """An optional attribute set to exactly zero is a value, not 'unset' (0.0 is falsy in Python)."""
        return 0.0 if self.rng.random() < p else x

    def call(self, desc):
        self.log.append(desc)

    # the model ---------------------------------------------------------------------------------
    def build(self):
        import wntr
        from wntr.network import controls as ctl
        from wntr.network.base import LinkStatus
        r = self.rng
        wn = wntr.network.WaterNetworkModel()
        self.wn = wn
        if self.maybe(0.5):
            wn.name = r.choice(['net', 'test model', 'Net-%d' % r.randint(1, 99)])
        self.options(wn)
        # patterns
        pats = []
        for i in range(r.randint(0, 4)):
            name = r.choice(['PAT%d', 'p%d', 'pattern_%d', '%d']) % (i + 1)
            n = r.choice([1, 2, 3, 5, 6, 7, 12, 24, 25])
            mult = [self.val(0.1, 2.0, 4) for _ in range(n)]
            wn.add_pattern(name, mult)
            self.call('add_pattern(%r, %s)' % (name, mult))
            pats.append(name)
        if pats and self.maybe(0.3):
            wn.options.hydraulic.pattern = r.choice(pats)
            self.call('options.hydraulic.pattern = %r' % wn.options.hydraulic.pattern)
        elif self.maybe(0.3) and not (self.inp and '1' in pats):
            # (an INP file cannot say "no default pattern" when a pattern named 1 exists: blank means pattern 1 to EPANET)
            wn.options.hydraulic.pattern = None
        # curves
        curves = {'HEAD': [], 'EFFICIENCY': [], 'VOLUME': [], 'HEADLOSS': []}
        for i in range(r.randint(0, 6)):
            t = r.choice(['HEAD', 'HEAD', 'EFFICIENCY', 'VOLUME', 'HEADLOSS'])
            name = 'C%s%d' % (t[0], i + 1)
            if t == 'HEAD':
                k = r.choice([1, 3, 3, 4])
                if k == 1:
                    pts = [(self.val(0.01, 0.2, 4), self.val(10, 80, 4))]
                else:
                    h0 = self.val(40, 100, 4)
                    qs = sorted(set(self.val(0.005, 0.3, 4) for _ in range(k - 1)))
                    pts = [(0.0, h0)] + [(q, sig(h0 * (1 - 0.8 * (j + 1) / len(qs)), 4)) for j, q in enumerate(qs)]
            elif t == 'EFFICIENCY':
                pts = [(self.val(0.001, 0.05, 4), self.val(40, 70, 4)), (self.val(0.06, 0.2, 4), self.val(70, 90, 4))]
            elif t == 'VOLUME':
                pts = [(0.0, 0.0), (self.val(1, 3, 4), self.val(50, 200, 4)), (self.val(8, 20, 4), self.val(500, 3000, 4))]
            else:
                pts = [(0.0, 0.0), (self.val(0.01, 0.1, 4), self.val(1, 5, 4)), (self.val(0.2, 0.5, 4), self.val(8, 30, 4))]
            wn.add_curve(name, t, pts)
            self.call('add_curve(%r, %r, %s)' % (name, t, pts))
            curves[t].append(name)
        # nodes
        nj = r.randint(*self.size)
        juncs, tanks, ress = [], [], []
        for i in range(nj):
            name = r.choice(['J%d', 'j-%d', 'N%d', '%d']) % (i + 1)
            if name in juncs:
                name = 'J%d' % (i + 1)
            kw = dict(base_demand=0.0 if self.maybe(0.2) else self.val(1e-4, 0.05, 4, log=True),
                      demand_pattern=r.choice(pats) if pats and self.maybe(0.6) else None,
                      elevation=self.val(-5, 300, 5), coordinates=(self.val(-1000, 5000, 6), self.val(-1000, 5000, 6)),
                      demand_category=r.choice([None, None, 'dom', 'industrial']))
            wn.add_junction(name, **kw)
            self.call('add_junction(%r, **%s)' % (name, kw))
            j = wn.get_node(name)
            if self.maybe(0.25):
                j.emitter_coefficient = self.val(1e-5, 1e-3, 4, log=True)
                self.call('%s.emitter_coefficient = %r' % (name, j.emitter_coefficient))
            if self.maybe(0.3):
                j.initial_quality = self.or_zero(self.val(1e-4, 1e-3, 3))
                self.call('%s.initial_quality = %r' % (name, j.initial_quality))
            for _ in range(r.choice([0, 0, 0, 1, 2])):
                a = (self.val(1e-4, 0.02, 4, log=True), r.choice(pats) if pats and self.maybe(0.7) else None, r.choice([None, 'extra', 'fire']))
                j.add_demand(*a)
                self.call('%s.add_demand%s' % (name, a))
                self.features.add('multi_demand')
            if self.maybe(0.08):
                j.demand_timeseries_list.clear()
                self.call('%s.demand_timeseries_list.clear()' % name)
                self.features.add('no_demand_junction')
            if self.maybe(0.3):
                j.tag = r.choice(['zoneA', 'tag1', 'x'])
                self.call('%s.tag = %r' % (name, j.tag))
            if not self.inp and self.maybe(0.25):
                j.minimum_pressure = self.val(0, 5, 3)
                j.required_pressure = self.val(10, 30, 3)
                j.pressure_exponent = r.choice([0.5, 0.6, 1.0])
                self.call('%s PDD overrides %s/%s/%s' % (name, j.minimum_pressure, j.required_pressure, j.pressure_exponent))
                self.features.add('pdd_override')
            juncs.append(name)
        for i in range(r.randint(0, 3)):
            name = 'T%d' % (i + 1)
            mn = self.val(0, 3, 4)
            mx = sig(mn + self.val(2, 10, 4), 5)
            init = sig(mn + (mx - mn) * r.choice([0.0, 0.3, 0.5, 1.0]), 5)
            kw = dict(elevation=self.val(0, 200, 5), init_level=init, min_level=mn, max_level=mx, diameter=self.val(3, 40, 4),
                      min_vol=0.0 if self.maybe(0.6) else self.val(1, 100, 4), overflow=self.maybe(0.3),
                      coordinates=(self.val(0, 5000, 6), self.val(0, 5000, 6)))
            vc = None
            if curves['VOLUME'] and self.maybe(0.4):
                vc = r.choice(curves['VOLUME'])
                pts = wn.get_curve(vc).points
                kw['min_level'] = mn = sig(max(mn, pts[0][0]), 5)
                kw['max_level'] = mx = sig(min(max(mx, mn + 1), pts[-1][0]), 5)
                kw['init_level'] = sig((mn + mx) / 2, 5)
                kw['vol_curve'] = vc
                self.features.add('vol_curve')
            wn.add_tank(name, **kw)
            self.call('add_tank(%r, **%s)' % (name, kw))
            t = wn.get_node(name)
            if self.maybe(0.4):
                t.mixing_model = r.choice(['MIXED', '2COMP', 'FIFO', 'LIFO'])
                if t.mixing_model.name.upper() in ('2COMP', 'TWOCOMP', 'MIX2') or str(t.mixing_model).upper().endswith('2'):
                    t.mixing_fraction = self.val(0.1, 0.9, 3)
                self.call('%s.mixing_model = %s fraction %s' % (name, t.mixing_model, t.mixing_fraction))
                self.features.add('mixing')
            if self.maybe(0.3):
                t.bulk_coeff = self.or_zero(-self.val(1e-6, 1e-5, 3))
                self.call('%s.bulk_coeff = %r' % (name, t.bulk_coeff))
            if self.maybe(0.3):
                t.initial_quality = self.or_zero(self.val(1e-4, 1e-3, 3))
            if self.maybe(0.3):
                t.tag = 'tanktag'
            tanks.append(name)
        for i in range(r.randint(1, 2)):
            name = 'R%d' % (i + 1)
            kw = dict(base_head=self.val(20, 300, 5), head_pattern=r.choice(pats) if pats and self.maybe(0.4) else None,
                      coordinates=(self.val(0, 5000, 6), self.val(0, 5000, 6)))
            wn.add_reservoir(name, **kw)
            self.call('add_reservoir(%r, **%s)' % (name, kw))
            rs = wn.get_node(name)
            if self.maybe(0.3):
                rs.initial_quality = self.val(1e-4, 1e-3, 3)
            if self.maybe(0.3):
                rs.tag = 'src'
            ress.append(name)
        nodes = juncs + tanks + ress
        # links
        links = {'Pipe': [], 'Pump': [], 'Valve': []}
        dw = wn.options.hydraulic.headloss == 'D-W'

        def verts():
            return [(self.val(0, 5000, 6), self.val(0, 5000, 6)) for _ in range(r.choice([1, 2, 3]))]

        def two(only_j=False):
            pool = juncs if only_j else nodes
            a = r.choice(pool)
            b = r.choice([x for x in pool if x != a] or pool)
            return a, b
        for i in range(r.randint(1, nj + 3)):
            name = r.choice(['P%d', 'pipe%d', '%d']) % (i + 1)
            if name in links['Pipe']:
                name = 'P%d' % (i + 1)
            a, b = two()
            kw = dict(length=self.val(5, 5000, 5, log=True), diameter=self.val(0.05, 1.5, 4),
                      roughness=self.val(1e-5, 3e-3, 3, log=True) if dw else self.val(60, 150, 4),
                      minor_loss=0.0 if self.maybe(0.6) else self.val(0.1, 20, 3), initial_status=r.choice(['OPEN', 'OPEN', 'CLOSED']),
                      check_valve=self.maybe(0.2))
            if kw['check_valve']:
                kw['initial_status'] = 'OPEN'
            wn.add_pipe(name, a, b, **kw)
            self.call('add_pipe(%r, %r, %r, **%s)' % (name, a, b, kw))
            p = wn.get_link(name)
            if self.maybe(0.25):
                p.bulk_coeff = self.or_zero(-self.val(1e-6, 1e-5, 3))
            if self.maybe(0.25):
                p.wall_coeff = self.or_zero(-self.val(1e-6, 1e-5, 3))
            if self.maybe(0.3):
                p.tag = 'ptag'
            if self.maybe(0.3):
                p.vertices = verts()
                self.call('%s.vertices = %s' % (name, p.vertices))
                self.features.add('pipe_vertices')
            links['Pipe'].append(name)
        for i in range(r.randint(0, 3)):
            name = 'PU%d' % (i + 1)
            a, b = two()
            if curves['HEAD'] and self.maybe(0.65):
                kw = dict(pump_type='HEAD', pump_parameter=r.choice(curves['HEAD']))
            else:
                kw = dict(pump_type='POWER', pump_parameter=self.val(500, 50000, 4))
            kw['speed'] = r.choice([1.0, 1.0, 0.8, 1.2])
            kw['pattern'] = r.choice(pats) if pats and self.maybe(0.3) else None
            kw['initial_status'] = r.choice(['OPEN', 'OPEN', 'CLOSED'])
            wn.add_pump(name, a, b, **kw)
            self.call('add_pump(%r, %r, %r, **%s)' % (name, a, b, kw))
            pu = wn.get_link(name)
            if curves['EFFICIENCY'] and self.maybe(0.4):
                pu.efficiency = wn.get_curve(r.choice(curves['EFFICIENCY']))
                self.call('%s.efficiency = curve %s' % (name, pu.efficiency.name))
                self.features.add('pump_efficiency')
            if self.maybe(0.3):
                pu.energy_price = self.val(0.01, 0.5, 3)
            if pats and self.maybe(0.3):
                pu.energy_pattern = r.choice(pats)
            if self.maybe(0.3):
                pu.tag = 'pumptag'
            if self.maybe(0.3):
                pu.vertices = verts()
                self.features.add('pump_vertices')
            links['Pump'].append(name)
        vtypes = ['PRV', 'PSV', 'PBV', 'FCV', 'TCV', 'GPV']
        for i in range(r.randint(0, 4)):
            vt = r.choice(vtypes)
            if vt == 'GPV' and not curves['HEADLOSS']:
                vt = 'TCV'
            if vt in ('PRV', 'PSV', 'FCV') and len(juncs) < 2:
                continue
            name = 'V%d' % (i + 1)
            a, b = two(only_j=vt in ('PRV', 'PSV', 'FCV'))
            if a == b:
                continue
            setting = {'PRV': self.val(5, 80, 4), 'PSV': self.val(5, 80, 4), 'PBV': self.val(1, 30, 4), 'FCV': self.val(1e-3, 0.2, 4),
                       'TCV': self.val(0.5, 100, 4)}.get(vt)
            if vt == 'GPV':
                setting = r.choice(curves['HEADLOSS'])
            kw = dict(diameter=self.val(0.05, 1.0, 4), valve_type=vt, minor_loss=0.0 if self.maybe(0.6) else self.val(0.1, 10, 3),
                      initial_setting=setting, initial_status=r.choice(['ACTIVE', 'ACTIVE', 'OPEN', 'CLOSED']))
            wn.add_valve(name, a, b, **kw)
            self.call('add_valve(%r, %r, %r, **%s)' % (name, a, b, kw))
            v = wn.get_link(name)
            if self.maybe(0.35):
                v.tag = 'vtag'
                self.features.add('valve_tag')
            if self.maybe(0.35):
                v.vertices = verts()
                self.call('%s.vertices = %s' % (name, v.vertices))
                self.features.add('valve_vertices')
            links['Valve'].append(name)
        all_links = links['Pipe'] + links['Pump'] + links['Valve']
        # sources
        for i in range(r.randint(0, 3)):
            name = 'S%d' % (i + 1)
            node = r.choice(nodes)
            if self.inp and any(s.node_name == node for _, s in wn.sources()):
                continue
            st = r.choice(['CONCEN', 'MASS', 'FLOWPACED', 'SETPOINT'])
            q = self.val(1e-4, 1e-2, 4)
            pat = r.choice(pats) if pats and self.maybe(0.5) else None
            wn.add_source(name, node, st, q, pat)
            self.call('add_source(%r, %r, %r, %r, %r)' % (name, node, st, q, pat))
            self.features.add('source')
        # leaks
        if self.leaks:
            for n in nodes:
                if n in ress or not self.maybe(0.12):
                    continue
                kw = dict(area=self.val(1e-5, 1e-3, 3), discharge_coeff=r.choice([0.75, 0.6, 1.0]),
                          start_time=r.choice([None, 3600, 7200]), end_time=r.choice([None, 14400]))
                wn.get_node(n).add_leak(wn, **kw)
                self.call('%s.add_leak(wn, **%s)' % (n, kw))
                self.features.add('leak_timed' if (kw['start_time'] is not None or kw['end_time'] is not None) else 'leak')
                if self.maybe(0.2):
                    # a leak that was removed again before the model is saved: its parameters stay on the node, its controls go
                    wn.get_node(n).remove_leak(wn)
                    self.call('%s.remove_leak(wn)' % n)
                    self.features.add('leak_removed')
        if self._trace:
            wn.options.quality.trace_node = r.choice(nodes)
            self.call('options.quality.trace_node = %r' % wn.options.quality.trace_node)
        # controls and rules
        self.controls(wn, ctl, LinkStatus, juncs, tanks, ress, links, all_links)
        return wn

    def options(self, wn):
        r = self.rng
        t = wn.options.time
        hyd = r.choice([300, 600, 900, 1800, 3600, 7200])
        t.hydraulic_timestep = hyd
        t.duration = hyd * r.randint(0, 48)
        t.quality_timestep = r.choice([60, 300, 360])
        t.rule_timestep = r.choice([60, 300, 360, hyd])
        t.pattern_timestep = r.choice([hyd, 3600, 7200, 1800])
        t.pattern_start = r.choice([0, 0, 3600, 5400])
        t.report_timestep = hyd * r.choice([1, 1, 2])
        t.report_start = r.choice([0, 0, hyd])
        t.start_clocktime = r.choice([0, 0, 3600 * 6, 3600 * 13 + 1800, 12 * 3600, 12 * 3600 + 1800, 12 * 3600 + 3599, 1800, 59, 86399,
                                      11 * 3600 + 3599, r.randrange(0, 86400)])     # every hour of the day, noon and midnight hours in particular
        t.statistic = r.choice(['NONE', 'NONE', 'AVERAGED', 'MINIMUM', 'MAXIMUM', 'RANGE'])
        # the keyword options of [REPORT] (side stream: the main stream stays what it was)
        import random as _random
        rr = _random.Random(int(t.duration) * 7 + int(t.start_clocktime) + int(hyd))
        wn.options.report.status = rr.choice(['NO', 'NO', 'YES', 'FULL'])
        wn.options.report.summary = rr.choice(['YES', 'YES', 'NO'])
        wn.options.report.energy = rr.choice(['NO', 'NO', 'YES'])
        h = wn.options.hydraulic
        h.headloss = r.choice(['H-W', 'H-W', 'H-W', 'D-W', 'C-M'])
        h.viscosity = r.choice([1.0, 1.1])
        h.specific_gravity = r.choice([1.0, 0.98])
        h.demand_multiplier = r.choice([1.0, 1.0, 0.8, 1.5])
        h.demand_model = r.choice(['DD', 'DD', 'PDD'])
        if h.demand_model in ('PDD', 'PDA'):
            h.minimum_pressure = self.val(0, 5, 3)
            h.required_pressure = self.val(10, 40, 3)
            h.pressure_exponent = r.choice([0.5, 0.6])
        h.emitter_exponent = r.choice([0.5, 0.6])
        h.trials = r.choice([40, 200, 100])
        h.accuracy = r.choice([0.001, 0.0001, 0.01])
        h.unbalanced = r.choice(['STOP', 'CONTINUE'])
        if h.unbalanced == 'CONTINUE':
            h.unbalanced_value = r.choice([None, 10, 20])
        h.checkfreq = r.choice([2, 3])
        h.maxcheck = r.choice([10, 20])
        h.damplimit = r.choice([0, 0.01])
        h.headerror = r.choice([0, 0, 0.01])
        h.flowchange = r.choice([0, 0, 0.001])
        h.inpfile_units = r.choice(['GPM', 'CFS', 'MGD', 'IMGD', 'AFD', 'LPS', 'LPM', 'MLD', 'CMH', 'CMD'])
        q = wn.options.quality
        q.parameter = r.choice(['NONE', 'NONE', 'CHEMICAL', 'AGE', 'TRACE'])
        if q.parameter == 'CHEMICAL':
            q.chemical_name = r.choice(['CHEMICAL', 'Chlorine'])
            q.inpfile_units = r.choice(['mg/L', 'ug/L'])
        q.diffusivity = r.choice([1.0, 1.2])
        q.tolerance = r.choice([0.01, 0.001])
        self._trace = q.parameter == 'TRACE'
        rx = wn.options.reaction
        rx.bulk_order = r.choice([1.0, 2.0])
        rx.wall_order = r.choice([1.0, 0.0])
        rx.tank_order = r.choice([1.0, 2.0])
        rx.bulk_coeff = r.choice([0.0, -self.val(1e-6, 1e-5, 3)])
        rx.wall_coeff = r.choice([0.0, -self.val(1e-6, 1e-5, 3)])
        rx.limiting_potential = r.choice([None, None, 0.5])
        rx.roughness_correl = r.choice([None, None, 0.1])
        e = wn.options.energy
        e.global_price = r.choice([0, 0.1, 0.25])
        e.global_efficiency = r.choice([None, 75.0, 80.0])
        e.demand_charge = r.choice([None, 2.0])
        self.call('options: %s' % {k: (dict(v) if hasattr(v, '__dict__') else v) for k, v in wn.options.to_dict().items()
                                 if k in ('time', 'hydraulic', 'quality', 'reaction', 'energy')})

    def controls(self, wn, ctl, LinkStatus, juncs, tanks, ress, links, all_links):
        r = self.rng
        if not all_links:
            return

        def action():
            kind = r.random()
            if kind < 0.55 or not (links['Pump'] or links['Valve']):
                ln = r.choice(all_links)
                return ctl.ControlAction(wn.get_link(ln), 'status', r.choice([LinkStatus.Open, LinkStatus.Closed]))
            if links['Pump'] and (kind < 0.8 or not links['Valve']):
                ln = r.choice(links['Pump'])
                return ctl.ControlAction(wn.get_link(ln), 'base_speed', r.choice([0.5, 0.9, 1.2]))
            cand = [v for v in links['Valve'] if wn.get_link(v).valve_type != 'GPV']
            if not cand:
                return ctl.ControlAction(wn.get_link(r.choice(all_links)), 'status', LinkStatus.Closed)
            ln = r.choice(cand)
            return ctl.ControlAction(wn.get_link(ln), 'setting', self.val(1, 50, 4) if wn.get_link(ln).valve_type != 'FCV' else self.val(0.001, 0.1, 4))

        def simple_condition():
            k = r.random()
            if k < 0.25:
                return ctl.SimTimeCondition(wn, '=', r.choice([3600, 5400, 7200, 36000, 90000]))
            if k < 0.45:
                return ctl.TimeOfDayCondition(wn, '=', r.choice([3600 * 6, 3600 * 13 + 1800, 3600 * 23]))
            if k < 0.75 and tanks:
                return ctl.ValueCondition(wn.get_node(r.choice(tanks)), 'level', r.choice(['>', '<']), self.val(1, 8, 4))
            if juncs:
                return ctl.ValueCondition(wn.get_node(r.choice(juncs)), 'pressure', r.choice(['>', '<']), self.val(5, 60, 4))
            return ctl.SimTimeCondition(wn, '=', 3600)

        def rule_condition(depth=0):
            k = r.random()
            if depth < 2 and k < 0.3:
                a, b = rule_condition(depth + 1), rule_condition(depth + 1)
                return ctl.AndCondition(a, b) if r.random() < 0.5 else ctl.OrCondition(a, b)
            k = r.random()
            rel = r.choice(['>', '<', '>=', '<=', '='])
            if k < 0.2:
                return ctl.SimTimeCondition(wn, rel, r.choice([3600, 7200, 36000]))
            if k < 0.35:
                return ctl.TimeOfDayCondition(wn, rel, r.choice([3600 * 6, 3600 * 20]))
            if k < 0.55 and tanks:
                return ctl.ValueCondition(wn.get_node(r.choice(tanks)), r.choice(['level', 'head', 'pressure']), rel, self.val(1, 8, 4))
            if k < 0.75 and juncs:
                return ctl.ValueCondition(wn.get_node(r.choice(juncs)), r.choice(['pressure', 'head', 'demand']), rel, self.val(0.001, 60, 4))
            ln = r.choice(all_links)
            if r.random() < 0.5:
                return ctl.ValueCondition(wn.get_link(ln), 'flow', rel, self.val(0.001, 0.5, 4))
            return ctl.ValueCondition(wn.get_link(ln), 'status', r.choice(['=', '<>']) if False else '=', r.choice([LinkStatus.Open, LinkStatus.Closed]))

        for i in range(r.randint(0, 4)):
            name = r.choice(['ctl%d', 'control_%d', 'c%d']) % (i + 1)
            try:
                c = ctl.Control(simple_condition(), action(), name=name)
            except Exception as e:   # noqa
                self.call('Control(...) raised %s: %s' % (type(e).__name__, e))
                continue
            wn.add_control(name, c)
            self.call('add_control(%r, %s)' % (name, c))
            self.features.add('control')
        for i in range(r.randint(0, 3)):
            name = r.choice(['rule%d', 'r%d']) % (i + 1)
            then = [action() for _ in range(r.choice([1, 1, 2]))]
            els = [action() for _ in range(r.choice([0, 0, 1, 2]))]
            try:
                c = ctl.Rule(rule_condition(), then, els, priority=r.choice([0, 1, 3, 5, 7]), name=name)
            except Exception as e:   # noqa
                self.call('Rule(...) raised %s: %s' % (type(e).__name__, e))
                continue
            wn.add_control(name, c)
            self.call('add_control(%r, %s)' % (name, c))
            self.features.add('rule_else' if els else 'rule')
