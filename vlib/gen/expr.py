"""G-expr: random expression DAGs for wntr.sim.aml, with an independent reference evaluator.

A node is an instance of N (identity matters: the same N used twice is a *shared* sub-expression,
and `to_wntr` maps it to one WNTR expression object used twice, which is what a user who writes
``e = x*y; f = (e + 1)*e`` does).

Reference semantics (`ref_eval`): forward-mode dual numbers over the generator's own tree -
nothing from wntr is used.  sign(v) = 1 for v >= 0 else -1; inequality bounds are inclusive;
if/else picks `then` when the condition is true.
"""
import math


class Reject(Exception):
    """The point is outside the domain of definition (or numerically ambiguous): not a test case."""


class N(object):
    __slots__ = ('k', 'a')

    def __init__(self, k, *a):
        self.k = k
        self.a = a

    def __repr__(self):
        return show(self)


BIN = {'add': '+', 'sub': '-', 'mul': '*', 'div': '/', 'pow': '**'}
UN = ('neg', 'abs', 'sign', 'exp', 'log', 'sin', 'cos', 'tan', 'asin', 'acos', 'atan')


def show(n, names=None, depth=0):
    if not isinstance(n, N):
        return repr(n)
    if depth > 40:
        return '...'
    k = n.k
    if k == 'var':
        return 'x%d' % n.a[0]
    if k == 'param':
        return 'p%d' % n.a[0]
    if k == 'flt':
        return 'F%d' % n.a[0]
    if k == 'num':
        return repr(n.a[0])
    if k in BIN:
        return '(%s %s %s)' % (show(n.a[0], names, depth + 1), BIN[k], show(n.a[1], names, depth + 1))
    if k == 'neg':
        return '(-%s)' % show(n.a[0], names, depth + 1)
    if k in UN:
        return '%s(%s)' % (k, show(n.a[0], names, depth + 1))
    if k == 'ineq':
        return 'ineq(%s, lb=%s, ub=%s)' % tuple(show(x, names, depth + 1) if x is not None else 'None' for x in n.a)
    if k == 'ite':
        return 'if_else(%s, %s, %s)' % tuple(show(x, names, depth + 1) for x in n.a)
    return '?%s' % k


def walk(n, seen=None):
    """Yield every distinct N below n (post-order)."""
    if seen is None:
        seen = set()
    if not isinstance(n, N) or id(n) in seen:
        return
    seen.add(id(n))
    for x in n.a:
        if isinstance(x, N):
            for y in walk(x, seen):
                yield y
    yield n


def count_shared(roots):
    """Number of operator nodes that have more than one parent occurrence among the given roots."""
    parents = {}
    seen = set()

    def rec(n):
        if not isinstance(n, N):
            return
        for x in n.a:
            if isinstance(x, N) and x.k not in ('var', 'param', 'num', 'flt'):
                parents[id(x)] = parents.get(id(x), 0) + 1
        if id(n) in seen:
            return
        seen.add(id(n))
        for x in n.a:
            rec(x)
    for r in roots:
        if isinstance(r, N) and r.k not in ('var', 'param', 'num', 'flt'):
            parents[id(r)] = parents.get(id(r), 0) + 1
        rec(r)
    return sum(1 for v in parents.values() if v > 1)


# ------------------------------------------------------------------------------------------
# generation
# ------------------------------------------------------------------------------------------
NICE = [0.0, 1.0, -1.0, 2.0, 0.5, -0.5, 1.5, 3.0, 0.25, -2.0]


def nice_value(rng):
    r = rng.random()
    if r < 0.25:
        return rng.choice(NICE)
    if r < 0.6:
        return rng.randint(-128, 128) / 64.0       # dyadic: exact sums and comparisons
    if r < 0.66:
        return rng.choice([-1, 1]) * rng.choice([2.0 ** -10, 2.0 ** -14, 2.0 ** -20, 1e-4, 1e-6])    # next to the kinks of abs/sign
    return round(rng.uniform(-2.5, 2.5), 4)


def gen_num(rng):
    r = rng.random()
    if r < 0.35:
        return rng.choice([0, 1, 2, 3, -1, -2, 0, 1])          # ints, incl. the folding constants
    if r < 0.6:
        return rng.choice([0.0, 1.0, 0.5, 2.0, -1.5, 1.852, 0.25])
    return round(rng.uniform(-3, 3), 3)


class Ctx(object):
    def __init__(self, nvars, nparams, nflt, p_share=0.15, p_cond=0.08):
        self.nvars, self.nparams, self.nflt = nvars, nparams, nflt
        self.pool = []
        self.p_share = p_share
        self.p_cond = p_cond
        self.leaf_cache = {}

    def leaf(self, kind, i):
        key = (kind, i)
        if key not in self.leaf_cache:
            self.leaf_cache[key] = N(kind, i)
        return self.leaf_cache[key]


def gen_leaf(rng, ctx, allow_num=True):
    r = rng.random()
    if r < 0.6 or (not allow_num and r < 0.8 and ctx.nparams == 0):
        return ctx.leaf('var', rng.randrange(ctx.nvars))
    if r < 0.75 and ctx.nparams:
        return ctx.leaf('param', rng.randrange(ctx.nparams))
    if r < 0.85 and ctx.nflt:
        return ctx.leaf('flt', rng.randrange(ctx.nflt))
    if allow_num:
        return N('num', gen_num(rng))
    return ctx.leaf('var', rng.randrange(ctx.nvars))


def _pos(rng, ctx, depth):
    """An expression that is >= c > 0 by construction."""
    a = gen_expr(rng, ctx, depth - 1)
    c = rng.choice([0.5, 1, 1.0, 2.5])
    return N('add', N('mul', a, a), N('num', c)) if rng.random() < 0.7 else N('add', N('pow', a, N('num', 2)), N('num', c))


def gen_expr(rng, ctx, depth):
    if depth <= 0:
        return gen_leaf(rng, ctx)
    r = rng.random()
    if ctx.pool and r < ctx.p_share:
        return rng.choice(ctx.pool)
    r = rng.random()
    if r < 0.12:
        n = gen_leaf(rng, ctx)
    elif r < 0.57:
        op = rng.choice(['add', 'add', 'sub', 'sub', 'mul', 'mul', 'div', 'pow'])
        if op == 'div':
            num = gen_expr(rng, ctx, depth - 1)
            den = _pos(rng, ctx, depth - 1) if rng.random() < 0.7 else gen_expr(rng, ctx, depth - 1)
            n = N('div', num, den)
        elif op == 'pow':
            form = rng.random()
            if form < 0.35:      # integer power of anything (incl. the folding exponents 0 and 1)
                n = N('pow', gen_expr(rng, ctx, depth - 1), N('num', rng.choice([2, 3, 2, -1, -2, 0, 1, 2.0])))
            elif form < 0.6:     # positive base, real constant exponent
                n = N('pow', _pos(rng, ctx, depth - 1), N('num', rng.choice([0.5, 1.852, -1.5, 0.852, 2.5])))
            elif form < 0.8:     # positive base, expression exponent
                n = N('pow', _pos(rng, ctx, depth - 1), gen_expr(rng, ctx, max(0, depth - 2)))
            elif form < 0.9:     # number ** expression (reflected operator)
                n = N('pow', N('num', rng.choice([2, 0.5, 3.0, 1, 0, 1.5])), gen_expr(rng, ctx, depth - 1))
            else:                # leaf ** param / leaf ** leaf
                n = N('pow', gen_leaf(rng, ctx, allow_num=False), gen_leaf(rng, ctx))
        else:
            a = gen_expr(rng, ctx, depth - 1)
            b = gen_expr(rng, ctx, depth - 1)
            if rng.random() < 0.2:
                a = N('num', gen_num(rng))      # reflected operators with Python numbers
            elif rng.random() < 0.2:
                b = N('num', gen_num(rng))
            n = N(op, a, b)
    elif r < 0.57 + 0.33:
        fn = rng.choice(UN)
        if fn == 'log':
            a = _pos(rng, ctx, depth) if rng.random() < 0.75 else gen_expr(rng, ctx, depth - 1)
        elif fn in ('asin', 'acos'):
            a = N('mul', N('num', rng.choice([0.9, 0.5])), N('sin', gen_expr(rng, ctx, depth - 1))) \
                if rng.random() < 0.75 else gen_expr(rng, ctx, depth - 1)
        elif fn == 'tan':
            a = N('mul', N('num', 0.4), N('sin', gen_expr(rng, ctx, depth - 1))) if rng.random() < 0.5 else gen_expr(rng, ctx, depth - 1)
        elif fn == 'exp':
            a = N('sin', gen_expr(rng, ctx, depth - 1)) if rng.random() < 0.4 else gen_expr(rng, ctx, depth - 1)
        else:
            a = gen_expr(rng, ctx, depth - 1)
        n = N(fn, a)
    else:
        n = N('ite', gen_ineq(rng, ctx, depth - 1), gen_expr(rng, ctx, depth - 1), gen_expr(rng, ctx, depth - 1))
    if n.k not in ('var', 'param', 'num', 'flt'):
        ctx.pool.append(n)
        if len(ctx.pool) > 40:
            ctx.pool.pop(rng.randrange(20))
    return n


def gen_ineq(rng, ctx, depth, simple=None):
    """inequality(body, lb, ub).  `simple` bodies (a leaf, or leaf +- leaf) make exact boundary tests possible."""
    if simple is None:
        simple = rng.random() < 0.6
    if simple:
        r = rng.random()
        v = ctx.leaf('var', rng.randrange(ctx.nvars))
        if r < 0.55:
            body = v
        elif r < 0.8:
            body = N(rng.choice(['add', 'sub']), v, ctx.leaf('var', rng.randrange(ctx.nvars)))
        else:
            body = N('sub', v, N('num', rng.randint(-64, 64) / 32.0))
    else:
        body = gen_expr(rng, ctx, depth)
        if not isinstance(body, N) or body.k == 'num':
            body = ctx.leaf('var', rng.randrange(ctx.nvars))
    lo = rng.randint(-96, 64) / 32.0
    hi = lo + rng.randint(0, 96) / 32.0
    form = rng.random()
    if form < 0.3:
        lb, ub = lo, None
    elif form < 0.6:
        lb, ub = None, hi
    elif form < 0.9:
        lb, ub = lo, hi
    elif form < 0.95:
        lb, ub = gen_leaf(rng, ctx, allow_num=False), None     # expression bound: body - lb >= 0
    else:
        lb, ub = None, gen_leaf(rng, ctx, allow_num=False)
    if rng.random() < 0.3 and isinstance(lb, float) and lb == int(lb):
        lb = int(lb)
    return N('ineq', body, lb, ub)


# ------------------------------------------------------------------------------------------
# translation to WNTR objects (the way a user writes them)
# ------------------------------------------------------------------------------------------
def to_wntr(n, env, memo):
    """env: dict(vars=[Var], params=[Param], floats=[Float]); memo: id(node) -> wntr object (sharing)."""
    from wntr.sim.aml import expr as E
    if not isinstance(n, N):
        return n
    key = id(n)
    if key in memo:
        return memo[key][1]
    k = n.k
    if k == 'var':
        r = env['vars'][n.a[0]]
    elif k == 'param':
        r = env['params'][n.a[0]]
    elif k == 'flt':
        r = env['floats'][n.a[0]]
    elif k == 'num':
        r = n.a[0]
    elif k in BIN:
        a = to_wntr(n.a[0], env, memo)
        b = to_wntr(n.a[1], env, memo)
        if k == 'add':
            r = a + b
        elif k == 'sub':
            r = a - b
        elif k == 'mul':
            r = a * b
        elif k == 'div':
            r = a / b
        else:
            r = a ** b
    elif k == 'neg':
        r = -to_wntr(n.a[0], env, memo)
    elif k in UN:
        r = getattr(E, k)(to_wntr(n.a[0], env, memo))
    elif k == 'ineq':
        body = to_wntr(n.a[0], env, memo)
        lb = to_wntr(n.a[1], env, memo) if n.a[1] is not None else None
        ub = to_wntr(n.a[2], env, memo) if n.a[2] is not None else None
        r = E.inequality(body, lb=lb, ub=ub)
    elif k == 'ite':
        r = E.if_else(to_wntr(n.a[0], env, memo), to_wntr(n.a[1], env, memo), to_wntr(n.a[2], env, memo))
    else:
        raise ValueError(k)
    if isinstance(r, complex):
        raise ValueError('math domain error')      # literal folding: negative ** fraction
    memo[key] = (n, r)     # keep n alive so that id() stays unique
    return r


# ------------------------------------------------------------------------------------------
# reference evaluation: dual numbers
# ------------------------------------------------------------------------------------------
class D(object):
    __slots__ = ('v', 'g')

    def __init__(self, v, g=None):
        self.v = float(v)
        self.g = g or {}


def _lin(a, ca, b=None, cb=0.0):
    g = {}
    for k, x in a.g.items():
        g[k] = ca * x
    if b is not None:
        for k, x in b.g.items():
            g[k] = g.get(k, 0.0) + cb * x
    return g


class Ref(object):
    """One evaluation of a set of roots at a point.  Collects scale information for tolerances."""

    KINK_EPS = 1e-3
    BIG = 1e7

    def __init__(self, xvals, pvals, fvals):
        self.x, self.p, self.f = xvals, pvals, fvals
        self.memo = {}
        self.kink = False        # a derivative is not defined/unique at this point (value still is)
        self.vscale = 1.0        # largest |intermediate value|
        self.gscale = 1.0        # largest |intermediate partial|

    def _track(self, d):
        if isinstance(d, D):
            if d.v != d.v or abs(d.v) > self.BIG:
                raise Reject('magnitude')
            if abs(d.v) > self.vscale:
                self.vscale = abs(d.v)
            for x in d.g.values():
                if x != x or abs(x) > self.BIG * 10:
                    raise Reject('gradient magnitude')
                if abs(x) > self.gscale:
                    self.gscale = abs(x)
        return d

    def ev(self, n):
        if not isinstance(n, N):
            return D(n)
        key = id(n)
        if key in self.memo:
            return self.memo[key]
        r = self._ev(n)
        self._track(r)
        self.memo[key] = r
        return r

    def _ev(self, n):
        k = n.k
        if k == 'var':
            return D(self.x[n.a[0]], {n.a[0]: 1.0})
        if k == 'param':
            return D(self.p[n.a[0]])
        if k == 'flt':
            return D(self.f[n.a[0]])
        if k == 'num':
            return D(n.a[0])
        if k == 'ineq':
            body = self.ev(n.a[0])
            val = body.v
            res = True
            for bound, lower in ((n.a[1], True), (n.a[2], False)):
                if bound is None:
                    continue
                b = self.ev(bound).v if isinstance(bound, N) else float(bound)
                diff = val - b
                if diff != 0 and abs(diff) < 1e-9 * (1 + abs(b)):
                    raise Reject('ambiguous comparison')
                if diff == 0:
                    if not (exact_safe(n.a[0], self) and (not isinstance(bound, N) or exact_safe(bound, self))):
                        raise Reject('boundary hit on a non-exact body')
                    self.kink = True
                if lower and not (b <= val):
                    res = False
                if not lower and not (val <= b):
                    res = False
            return res
        if k == 'ite':
            c = self.ev(n.a[0])
            # both branches are evaluated by the real code (RPN machine): both must be in the domain
            t = self.ev(n.a[1])
            e = self.ev(n.a[2])
            return t if c else e
        if k in BIN:
            a = self.ev(n.a[0])
            b = self.ev(n.a[1])
            if k == 'add':
                return D(a.v + b.v, _lin(a, 1.0, b, 1.0))
            if k == 'sub':
                return D(a.v - b.v, _lin(a, 1.0, b, -1.0))
            if k == 'mul':
                return D(a.v * b.v, _lin(a, b.v, b, a.v))
            if k == 'div':
                if abs(b.v) < self.KINK_EPS:
                    raise Reject('division by ~0')
                return D(a.v / b.v, _lin(a, 1.0 / b.v, b, -a.v / (b.v * b.v)))
            # pow
            expo_is_const = not b.g
            if a.v > self.KINK_EPS:
                try:
                    v = a.v ** b.v
                    ga = b.v * a.v ** (b.v - 1.0)
                    gb = v * math.log(a.v)
                except OverflowError:
                    raise Reject('pow overflow')
                return D(v, _lin(a, ga, b, gb))
            if expo_is_const and b.v == int(b.v) and abs(b.v) <= 4 and self._structurally_const_exponent(n.a[1]):
                e = int(b.v)
                if a.v == 0 and e <= 0:
                    if e == 0 and isinstance(n.a[1], N) and n.a[1].k == 'num':
                        return D(1.0)        # x ** 0 folds to 1 when written with a literal
                    raise Reject('0 ** nonpositive')
                if abs(a.v) < self.KINK_EPS and e < 0:
                    raise Reject('~0 ** negative')
                try:
                    v = a.v ** e
                    ga = e * a.v ** (e - 1) if e != 0 else 0.0
                except (OverflowError, ZeroDivisionError):
                    raise Reject('pow overflow')
                return D(v, _lin(a, ga))
            raise Reject('pow: non-positive base with non-integer or variable exponent')
        a = self.ev(n.a[0])
        if k == 'neg':
            return D(-a.v, _lin(a, -1.0))
        if k == 'abs':
            if abs(a.v) < self.KINK_EPS:
                if a.v != 0 and not exact_safe(n.a[0], self):
                    raise Reject('abs near 0')
                self.kink = True
            s = 1.0 if a.v >= 0 else -1.0
            return D(abs(a.v), _lin(a, s))
        if k == 'sign':
            if abs(a.v) < self.KINK_EPS:
                if not exact_safe(n.a[0], self):
                    raise Reject('sign near 0')
                self.kink = True
            return D(1.0 if a.v >= 0 else -1.0)
        if k == 'exp':
            if a.v > 14:
                raise Reject('exp overflow')
            v = math.exp(a.v)
            return D(v, _lin(a, v))
        if k == 'log':
            if a.v < self.KINK_EPS:
                raise Reject('log of <=0')
            return D(math.log(a.v), _lin(a, 1.0 / a.v))
        if k == 'sin':
            return D(math.sin(a.v), _lin(a, math.cos(a.v)))
        if k == 'cos':
            return D(math.cos(a.v), _lin(a, -math.sin(a.v)))
        if k == 'tan':
            c = math.cos(a.v)
            if abs(c) < 1e-2:
                raise Reject('tan pole')
            return D(math.tan(a.v), _lin(a, 1.0 / (c * c)))
        if k == 'asin':
            if abs(a.v) > 0.995:
                raise Reject('asin domain')
            return D(math.asin(a.v), _lin(a, 1.0 / math.sqrt(1 - a.v * a.v)))
        if k == 'acos':
            if abs(a.v) > 0.995:
                raise Reject('acos domain')
            return D(math.acos(a.v), _lin(a, -1.0 / math.sqrt(1 - a.v * a.v)))
        if k == 'atan':
            return D(math.atan(a.v), _lin(a, 1.0 / (1 + a.v * a.v)))
        raise ValueError(k)

    @staticmethod
    def _structurally_const_exponent(e):
        """The exponent cannot depend on a variable (literal, Float or Param leaf)."""
        if not isinstance(e, N):
            return True
        return e.k in ('num', 'flt', 'param')


def exact_safe(n, ref, depth=0):
    """True when n's value is computed exactly in floating point whatever the evaluation order:
    leaves and sums/differences/negations of leaves whose values are small dyadic rationals."""
    if not isinstance(n, N):
        return _dyadic(n)
    if n.k in ('var', 'param', 'flt', 'num') and depth == 0:
        return True         # a bare leaf is its own exact value, however small
    if n.k == 'var':
        return _dyadic(ref.x[n.a[0]])
    if n.k == 'param':
        return _dyadic(ref.p[n.a[0]])
    if n.k == 'flt':
        return _dyadic(ref.f[n.a[0]])
    if n.k == 'num':
        return _dyadic(n.a[0])
    if depth > 3:
        return False
    if n.k in ('add', 'sub'):
        return exact_safe(n.a[0], ref, depth + 1) and exact_safe(n.a[1], ref, depth + 1)
    if n.k == 'neg':
        return exact_safe(n.a[0], ref, depth + 1)
    return False


def _dyadic(v):
    try:
        return abs(v) <= 1024 and float(v) * 1024 == int(float(v) * 1024)
    except (OverflowError, ValueError):
        return False
