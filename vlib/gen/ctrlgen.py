"""G-ctrl: random control / rule schedules added to a G-net spec."""
from .net import _round


def _targets(spec):
    pipes = [p['name'] for p in spec['pipes']]
    pumps = [p['name'] for p in spec['pumps']]
    valves = [v['name'] for v in spec['valves']]
    return pipes, pumps, valves


def add_random_controls(spec, rng, n=(1, 5), kinds=('time', 'clock', 'tank', 'pressure', 'setting', 'rule_time', 'rule_tank'),
                        offgrid=0.5):
    o = spec['options']
    hyd, dur = o['hydraulic_timestep'], o['duration']
    pipes, pumps, valves = _targets(spec)
    links = pipes + pumps
    if not links:
        return []
    tanks = spec['tanks']
    made = []
    k = rng.randint(n[0], n[1])
    tries = 0
    while len(made) < k and tries < 40:
        tries += 1
        kind = rng.choice(kinds)
        name = 'c%d' % (len(spec['controls']) + 1)

        def when():
            t = hyd * rng.randint(0, max(1, dur // hyd))
            if rng.random() < offgrid:
                t += rng.randint(1, hyd - 1)
            return min(t, dur + hyd)

        if kind == 'time':
            cs = {'kind': 'time', 'name': name, 'time': when(), 'target': rng.choice(links), 'attr': 'status',
                  'value': rng.choice(['OPEN', 'CLOSED'])}
        elif kind == 'clock':
            ct = rng.choice([0, 3600, 6 * 3600, 7 * 3600 + 1800, 12 * 3600, 18 * 3600 + 900, 23 * 3600])
            # mostly a time of day that the run actually passes (side stream: the main stream stays what it was)
            import random as _random
            rs = _random.Random(ct * 7 + dur * 13 + len(spec['controls']) * 101 + o.get('start_clocktime', 0))
            if rs.random() < 0.6:
                t_ = hyd * rs.randint(0, max(1, dur // hyd)) + (rs.randint(1, hyd - 1) if rs.random() < offgrid else 0)
                ct = (o.get('start_clocktime', 0) + t_) % 86400
            cs = {'kind': 'time', 'name': name, 'time': ct, 'clock': True, 'daily': True, 'target': rng.choice(links),
                  'attr': 'status', 'value': rng.choice(['OPEN', 'CLOSED'])}
        elif kind == 'tank' and tanks:
            tk = rng.choice(tanks)
            lo = _round(tk['min_level'] + rng.uniform(0.1, 0.45) * (tk['max_level'] - tk['min_level']), 4)
            hi = _round(tk['min_level'] + rng.uniform(0.55, 0.9) * (tk['max_level'] - tk['min_level']), 4)
            tgt = rng.choice(links)
            cs = {'kind': 'cond', 'name': name, 'source': tk['name'], 'sattr': 'level', 'op': '<', 'threshold': lo,
                  'target': tgt, 'attr': 'status', 'value': rng.choice(['OPEN', 'OPEN', 'CLOSED'])}
            spec['controls'].append(cs)
            made.append(cs)
            name = 'c%d' % (len(spec['controls']) + 1)
            cs = {'kind': 'cond', 'name': name, 'source': tk['name'], 'sattr': 'level', 'op': '>', 'threshold': hi,
                  'target': tgt, 'attr': 'status', 'value': 'CLOSED' if made[-1]['value'] == 'OPEN' else 'OPEN'}
        elif kind == 'pressure':
            j = rng.choice(spec['junctions'])
            cs = {'kind': 'cond', 'name': name, 'source': j['name'], 'sattr': 'pressure', 'op': rng.choice(['<', '>']),
                  'threshold': _round(rng.uniform(20, 90), 4), 'target': rng.choice(links), 'attr': 'status',
                  'value': rng.choice(['OPEN', 'CLOSED'])}
        elif kind == 'setting' and valves:
            v = rng.choice(spec['valves'])
            if v['type'] == 'TCV':
                val = _round(rng.choice([0.5, 5.0, 60.0, 400.0, 2500.0]), 4)
            elif v['type'] == 'FCV':
                val = _round(v['setting'] * rng.choice([0.3, 0.6, 2.0]), 5)
            else:
                val = _round(max(1.0, v['setting'] + rng.choice([-15.0, -5.0, 8.0, 20.0])), 4)
            cs = {'kind': 'time', 'name': name, 'time': when(), 'target': v['name'], 'attr': 'setting', 'value': val}
        elif kind == 'rule_setting' and valves:
            # a rule that changes a valve setting in its THEN and in its ELSE clause (each passes through its own unit conversion in the INP writer)
            v = rng.choice(spec['valves'])

            def newval():
                if v['type'] == 'TCV':
                    return _round(rng.choice([0.5, 5.0, 60.0, 400.0]), 4)
                if v['type'] == 'FCV':
                    return _round(v['setting'] * rng.choice([0.3, 0.6, 1.5, 2.0]), 5)
                return _round(max(1.0, v['setting'] + rng.choice([-15.0, -5.0, 8.0, 20.0])), 4)
            cs = {'kind': 'rule', 'name': name, 'priority': rng.randint(1, 5),
                  'cond': {'kind': 'simtime', 'op': rng.choice(['>=', '>=', '<', '<=']), 'time': when()},
                  'then': [{'target': v['name'], 'attr': 'setting', 'value': newval()}]}
            if rng.random() < 0.7:
                cs['else'] = [{'target': v['name'], 'attr': 'setting', 'value': newval()}]
        elif kind == 'rule_clock':
            # a rule on the time of day: one comparison, or a window [c1, c2) that the run passes (possibly across midnight)
            c1 = (o.get('start_clocktime', 0) + when()) % 86400
            if rng.random() < 0.5:
                cond = {'kind': 'clock', 'op': rng.choice(['>=', '>', '<', '<=']), 'time': c1}
            else:
                c2 = (c1 + hyd * rng.randint(1, 4) + rng.choice([0, 0, 1, 600])) % 86400
                cond = {'kind': 'and' if c1 < c2 else 'or', 'a': {'kind': 'clock', 'op': '>=', 'time': c1}, 'b': {'kind': 'clock', 'op': '<', 'time': c2}}
            cs = {'kind': 'rule', 'name': name, 'priority': rng.randint(1, 5), 'cond': cond,
                  'then': [{'target': rng.choice(links), 'attr': 'status', 'value': rng.choice(['OPEN', 'CLOSED'])}]}
            if rng.random() < 0.6:
                a = cs['then'][0]
                cs['else'] = [{'target': a['target'], 'attr': 'status', 'value': 'OPEN' if a['value'] == 'CLOSED' else 'CLOSED'}]
        elif kind == 'rule_time':
            t1 = when()
            cs = {'kind': 'rule', 'name': name, 'priority': rng.randint(1, 5),
                  'cond': {'kind': 'simtime', 'op': rng.choice(['>=', '>=', '>', '<', '<=']), 'time': t1},
                  'then': [{'target': rng.choice(links), 'attr': 'status', 'value': rng.choice(['OPEN', 'CLOSED'])}]}
            if rng.random() < 0.5:
                a = cs['then'][0]
                cs['else'] = [{'target': a['target'], 'attr': 'status', 'value': 'OPEN' if a['value'] == 'CLOSED' else 'CLOSED'}]
        elif kind == 'rule_tank' and tanks:
            tk = rng.choice(tanks)
            th = _round(tk['min_level'] + rng.uniform(0.2, 0.8) * (tk['max_level'] - tk['min_level']), 4)
            cond = {'kind': 'node', 'source': tk['name'], 'attr': 'level', 'op': rng.choice(['<', '>', '<=', '>=']), 'threshold': th}
            if rng.random() < 0.4:
                cond = {'kind': rng.choice(['and', 'or']), 'a': cond,
                        'b': {'kind': 'simtime', 'op': rng.choice(['>=', '<']), 'time': when()}}
            a = {'target': rng.choice(links), 'attr': 'status', 'value': rng.choice(['OPEN', 'CLOSED'])}
            cs = {'kind': 'rule', 'name': name, 'priority': rng.randint(1, 5), 'cond': cond, 'then': [a]}
            if rng.random() < 0.5:
                cs['else'] = [{'target': a['target'], 'attr': 'status', 'value': 'OPEN' if a['value'] == 'CLOSED' else 'CLOSED'}]
        else:
            continue
        spec['controls'].append(cs)
        made.append(cs)
    return made
