"""Worker subprocess: runs a list of case indices of one property and streams JSONL results.

Before each case a {"start": i} line is flushed so that, if the process dies (sanitizer abort,
segfault), the parent knows which case was executing.
"""
import argparse
import importlib
import json
import os
import signal
import sys
import time
import traceback
import warnings


class CaseTimeout(Exception):
    pass


def _alarm(signum, frame):
    raise CaseTimeout()


def main():
    ap = argparse.ArgumentParser()
    ap.add_argument('--prop', required=True)
    ap.add_argument('--seed', type=int, required=True)
    ap.add_argument('--tier', required=True)
    ap.add_argument('--cases', required=True)
    ap.add_argument('--out', required=True)
    ap.add_argument('--variant', default='plain')
    ap.add_argument('--case-timeout', type=int, default=120)
    a = ap.parse_args()

    sys.path.insert(0, os.path.dirname(os.path.dirname(os.path.abspath(__file__))))
    from vlib import boot, case as caselib
    mod = importlib.import_module('vlib.props.' + a.prop.lower())
    out = open(a.out, 'a', buffering=1)
    try:
        boot.setup(need_deps=getattr(mod, 'NEED_DEPS', False))
    except Exception:
        out.write(json.dumps({'fatal': 'boot', 'trace': traceback.format_exc()[-3000:]}) + '\n')
        return 3
    warnings.simplefilter('ignore')
    if hasattr(mod, 'worker_init'):
        mod.worker_init(a.tier, a.variant)
    signal.signal(signal.SIGALRM, _alarm)
    idx = [int(x) for x in a.cases.split(',') if x != '']
    for i in idx:
        out.write(json.dumps({'start': i}) + '\n')
        c = caselib.Case(a.prop, a.seed, a.tier, i)
        c.variant = a.variant
        rng = caselib.case_rng(a.prop, a.seed, i)
        t0 = time.time()
        signal.alarm(a.case_timeout)
        try:
            mod.run_case(c, rng)
        except CaseTimeout:
            c.inconclusive('case_timeout')
            c.count('case_timeouts')
        except MemoryError:
            c.inconclusive('memory_error')
        except Exception as e:
            # an exception the monitor did not attribute to WNTR: never a verdict
            c.inconclusive('harness_exception: %s: %s' % (type(e).__name__, str(e)[:300]))
            c.count('harness_exceptions')
            c.notes.append(traceback.format_exc()[-1500:])
        finally:
            signal.alarm(0)
        r = c.result()
        r['wall'] = round(time.time() - t0, 3)
        r['variant'] = a.variant
        out.write(caselib.dumps(r) + '\n')
    out.write(json.dumps({'done': True}) + '\n')
    out.close()
    return 0


if __name__ == '__main__':
    sys.exit(main())
