"""Process bootstrap for every harness process.

* puts /repo first on sys.path so ``import wntr`` is the working tree;
* installs a meta-path finder that resolves WNTR's two native modules to the binaries that
  native.py rebuilt from the working tree's .cpp files (kind taken from VERIF_NATIVE);
* makes /verif/.deps (icontract, deal; installed offline by ``ensure_deps``) importable;
* silences the noisy warnings WNTR emits on import.
"""
import importlib.abc
import importlib.machinery
import importlib.util
import os
import subprocess
import sys
import warnings

VERIF = os.path.dirname(os.path.dirname(os.path.abspath(__file__)))
REPO = os.environ.get('VERIF_REPO', '/repo')
DEPS = os.path.join(VERIF, '.deps')

_native_paths = {}


class _NativeFinder(importlib.abc.MetaPathFinder):
    def find_spec(self, fullname, path, target=None):
        p = _native_paths.get(fullname)
        if p is None:
            return None
        loader = importlib.machinery.ExtensionFileLoader(fullname, p)
        return importlib.util.spec_from_file_location(fullname, p, loader=loader)


def ensure_deps():
    """Install icontract/deal from the offline wheelhouse into /verif/.deps (git-ignored)."""
    marker = os.path.join(DEPS, 'icontract')
    if not os.path.isdir(marker):
        os.makedirs(DEPS, exist_ok=True)
        r = subprocess.run([sys.executable, '-m', 'pip', 'install', '--no-index', '--quiet',
                            '--find-links', '/opt/veriftools/wheels', '--target', DEPS,
                            'icontract', 'deal'], capture_output=True, text=True)
        if r.returncode != 0:
            raise RuntimeError('cannot install icontract/deal offline: ' + r.stderr[-2000:])
    if DEPS not in sys.path:
        sys.path.append(DEPS)


def setup(native_kind=None, need_deps=False):
    from . import native
    if REPO in sys.path:
        sys.path.remove(REPO)
    sys.path.insert(0, REPO)
    kind = native_kind or os.environ.get('VERIF_NATIVE', 'plain')
    _native_paths.update(native.build(kind))
    if not any(isinstance(f, _NativeFinder) for f in sys.meta_path):
        sys.meta_path.insert(0, _NativeFinder())
    if need_deps or os.path.isdir(os.path.join(DEPS, 'icontract')):
        if need_deps:
            ensure_deps()
        elif DEPS not in sys.path:
            sys.path.append(DEPS)
    warnings.filterwarnings('ignore', message='pkg_resources is deprecated')
    warnings.filterwarnings('ignore', category=DeprecationWarning)
    import logging
    logging.getLogger('wntr').setLevel(logging.CRITICAL)
    import wntr  # noqa
    f = os.path.abspath(wntr.__file__)
    assert f.startswith(os.path.abspath(REPO) + os.sep), 'wntr imported from %s, not %s' % (f, REPO)
    import wntr.sim.aml._evaluator as ev
    assert os.path.abspath(ev.__file__) == _native_paths['wntr.sim.aml._evaluator'], ev.__file__
    import wntr.sim.network_isolation._network_isolation as ni
    assert os.path.abspath(ni.__file__) == \
        _native_paths['wntr.sim.network_isolation._network_isolation'], ni.__file__
    return wntr


def rebind(orig, new):
    """Replace every module-global that *is* ``orig`` by ``new`` (``from m import f`` copies)."""
    n = 0
    for mod in list(sys.modules.values()):
        d = getattr(mod, '__dict__', None)
        if not d:
            continue
        for k, v in list(d.items()):
            if v is orig:
                d[k] = new
                n += 1
    return n
