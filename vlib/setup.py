"""MANIFEST.setup_cmd: build everything the checks need from files on disk (offline)."""
import os
import sys
sys.path.insert(0, os.path.dirname(os.path.dirname(os.path.abspath(__file__))))
from vlib import native, boot  # noqa: E402

if __name__ == '__main__':
    for kind in ('plain', 'asan'):
        print(kind, native.build(kind))
    boot.ensure_deps()
    os.makedirs(os.path.join(native.VERIF, 'evidence'), exist_ok=True)
    print('setup ok')
