"""pytest plugin: run the repository's own tests with the simulation monitors switched on.

    VERIF_SUITE_PROP=C01 VERIF_SUITE_OUT=<file.jsonl> PYTHONPATH=/verif:<tree> python -m pytest -p vlib.pytest_monitors <test file>

Every WNTRSimulator.run_sim / EpanetSimulator.run_sim call a test makes is observed at its boundary and judged by the oracle
of the selected property (the same functions the seeded workloads use):
  C01  node balance + demand-driven demand on the returned tables
  C02  head-flow law of every link x reported step
  C11  wn.to_dict() unchanged by the run (both simulators)
  C16  shape of the returned tables (one index, one column per element, finite)
One JSON line per observed call goes to VERIF_SUITE_OUT; the tests themselves run unmodified and their outcome is not a verdict.
"""
import json
import os
import sys
import traceback

PROP = os.environ.get('VERIF_SUITE_PROP', '')
OUT = os.environ.get('VERIF_SUITE_OUT', '')
_state = {'test': None, 'n': 0, 'installed': False, 'depth': 0}


def _emit(rec):
    if OUT:
        with open(OUT, 'a') as f:
            f.write(json.dumps(rec, default=str) + '\n')


def pytest_configure(config):
    verif = os.path.dirname(os.path.dirname(os.path.abspath(__file__)))
    if verif not in sys.path:
        sys.path.insert(0, verif)
    from vlib import boot
    boot.setup()
    _install()


def pytest_runtest_setup(item):
    _state['test'] = item.nodeid


def _collector():
    from vlib import case as caselib
    c = caselib.Case(PROP, 0, 'suite', _state['n'])
    c.variant = 'suite'
    return c


def _in_scope_c11(wn):
    """C11 speaks of controls that change statuses, settings (and leaks): a user control that writes a definition attribute such as
    a junction elevation changes the definition by the user's own request."""
    for _, ctl in wn.controls():
        for act in ctl.actions():
            try:
                _, attr = act.target()
            except Exception:
                return False
            if attr not in ('status', 'setting', 'base_speed', 'leak_status'):
                return False
    return True


def _judge_wntr(wn, res, kw, pre):
    from vlib import simobs
    c = _collector()
    sample = {'test': _state['test'], 'network': getattr(wn, 'name', None)}
    if PROP == 'C11':
        from vlib.props import c11
        if not _in_scope_c11(wn):
            c.count('skipped_out_of_scope')
            return c
        c.count('wntr_dict_checks')
        d1 = c11.norm(wn.to_dict())
        if d1 != pre:
            c.violate('definition_changed', 'WNTRSimulator.run_sim changed the model definition: %s' % '; '.join(c11.diff_dict(pre, d1)[:4]), sample=sample)
        return c
    if res is None or getattr(res, 'error_code', None) is not None:
        c.count('not_converged_calls')
        return c
    if len(res.node['head'].index) == 0:
        return c
    if PROP == 'C01':
        from vlib.props import c01
        c01.check_balance(c, wn, res, sample)
    elif PROP == 'C02':
        from vlib.props import c02
        c02.check_links(c, wn, res, kw.get('HW_approx', 'default'), sample)
    elif PROP == 'C16':
        import numpy as np
        idx = None
        for grp, names in (('node', list(wn.node_name_list)), ('link', list(wn.link_name_list))):
            for key, tab in getattr(res, grp).items():
                c.count('tables_checked')
                t = list(tab.index)
                if idx is None:
                    idx = t
                if t != idx:
                    c.violate('index_differs', 'table %s/%s has a different time index' % (grp, key), sample=sample)
                if any(b <= a for a, b in zip(t, t[1:])):
                    c.violate('index_not_increasing', 'table %s/%s: %s' % (grp, key, t[:8]), sample=sample)
                if sorted(map(str, tab.columns)) != sorted(names):
                    c.violate('columns_wrong', 'table %s/%s columns differ from the model elements' % (grp, key), sample=sample)
                if not np.isfinite(np.asarray(tab.values, dtype=float)).all():
                    c.violate('non_finite_values', 'table %s/%s contains non-finite numbers' % (grp, key), sample=sample)
    return c


def _install():
    if _state['installed'] or not PROP:
        return
    _state['installed'] = True
    import wntr.sim.core as core
    import wntr.sim.epanet as epa
    orig_w = core.WNTRSimulator.run_sim
    orig_e = epa.EpanetSimulator.run_sim

    def run_sim_w(self, *a, **kw):
        wn = self._wn
        pre = None
        outer = _state['depth'] == 0
        _state['depth'] += 1
        try:
            if outer and PROP == 'C11':
                try:
                    from vlib.props import c11
                    pre = c11.norm(wn.to_dict())
                except Exception:
                    pre = None
            res = orig_w(self, *a, **kw)
        finally:
            _state['depth'] -= 1
        if outer:
            _state['n'] += 1
            try:
                if PROP != 'C11' or pre is not None:
                    c = _judge_wntr(wn, res, kw, pre)
                    _emit({'call': _state['n'], 'sim': 'wntr', 'test': _state['test'], 'counters': c.counters,
                           'violations': [{'kind': v['kind'], 'msg': v['msg']} for v in c.violations]})
            except Exception:
                _emit({'call': _state['n'], 'sim': 'wntr', 'test': _state['test'], 'harness_error': traceback.format_exc()[-800:]})
        return res

    def run_sim_e(self, *a, **kw):
        wn = self._wn
        pre = None
        if PROP == 'C11':
            try:
                from vlib.props import c11
                pre = c11.norm(wn.to_dict())
            except Exception:
                pre = None
        res = orig_e(self, *a, **kw)
        if PROP == 'C11' and pre is not None:
            _state['n'] += 1
            try:
                from vlib.props import c11
                c = _collector()
                d1 = c11.norm(wn.to_dict())
                if not _in_scope_c11(wn):
                    c.count('skipped_out_of_scope')
                    d1 = pre
                else:
                    c.count('epanet_dict_checks')
                if d1 != pre:
                    c.violate('definition_changed', 'EpanetSimulator.run_sim changed the model definition: %s' % '; '.join(c11.diff_dict(pre, d1)[:4]),
                              sample={'test': _state['test']})
                _emit({'call': _state['n'], 'sim': 'epanet', 'test': _state['test'], 'counters': c.counters,
                       'violations': [{'kind': v['kind'], 'msg': v['msg']} for v in c.violations]})
            except Exception:
                _emit({'call': _state['n'], 'sim': 'epanet', 'test': _state['test'], 'harness_error': traceback.format_exc()[-800:]})
        return res

    core.WNTRSimulator.run_sim = run_sim_w
    epa.EpanetSimulator.run_sim = run_sim_e
