"""Run the real simulators under observation hooks and hand the monitors a Trace.

Hook points (module attributes looked up at call time by wntr.sim.core):
  wntr.sim.hydraulics.save_results                    -> a solved step becomes *reported*
  wntr.sim.hydraulics.update_network_previous_values  -> a solved step is *accepted*
  wntr.sim.core._solver_helper                        -> every nonlinear solve (fault injection point)
"""
import contextlib
import warnings


class Trace(object):
    def __init__(self):
        self.results = None
        self.exception = None
        self.warnings = []
        self.saved = []       # per reported step: dict(t, iso_nodes, iso_links, user_status, internal_status)
        self.accepted = []    # per accepted step: dict(t, tank_head{}, tank_demand{}, tank_prev_head)
        self.solves = []      # per solve: dict(k, t, status, injected)
        self.n_solves = 0

    @property
    def ok(self):
        return self.exception is None and self.results is not None


@contextlib.contextmanager
def hooks(trace, wn, fault=None, deep=True):
    """fault: callable(k, t) -> bool : make solve k report SolverStatus.error without solving."""
    import wntr.sim.core as core
    import wntr.sim.hydraulics as hyd
    from wntr.sim.solvers import SolverStatus
    o_save, o_prev, o_solve = hyd.save_results, hyd.update_network_previous_values, core._solver_helper

    tank_links = {n: [ln for ln, l in wn.links() if n in (l.start_node_name, l.end_node_name)] for n, o in wn.tanks()}

    def save_results(wn_, node_res, link_res):
        if deep:
            trace.saved.append({
                't': wn_.sim_time,
                'iso_nodes': [n for n, o in wn_.junctions() if o._is_isolated],
                'iso_links': [n for n, o in wn_.links() if o._is_isolated],
                'user_status': {n: int(o._user_status) for n, o in wn_.links()},
                'internal_status': {n: int(o._internal_status) for n, o in wn_.links()},
            })
        else:
            trace.saved.append({'t': wn_.sim_time})
        return o_save(wn_, node_res, link_res)

    def update_prev(wn_):
        if wn_.sim_time != 0 or trace.n_solves > 0:
            trace.accepted.append({
                't': wn_.sim_time,
                'tank_head': {n: o.head for n, o in wn_.tanks()},
                'tank_demand': {n: o.demand for n, o in wn_.tanks()},
                'tank_leak': {n: o.leak_demand for n, o in wn_.tanks()},
                'tank_link_flow': {n: {ln: wn_.get_link(ln).flow for ln in tank_links[n]} for n in tank_links},
            })
        return o_prev(wn_)

    def solver_helper(model, solver, solver_options):
        k = trace.n_solves
        trace.n_solves += 1
        if fault is not None and fault(k, wn.sim_time):
            trace.solves.append({'k': k, 't': wn.sim_time, 'status': 0, 'injected': True})
            return SolverStatus.error, 'injected fault at solve %d' % k, 0
        r = o_solve(model, solver, solver_options)
        trace.solves.append({'k': k, 't': wn.sim_time, 'status': int(r[0]), 'injected': False, 'msg': str(r[1])[:80]})
        return r

    hyd.save_results = save_results
    hyd.update_network_previous_values = update_prev
    core._solver_helper = solver_helper
    try:
        yield
    finally:
        hyd.save_results = o_save
        hyd.update_network_previous_values = o_prev
        core._solver_helper = o_solve


def run_wntr(wn, fault=None, deep=True, sim=None, **kw):
    import wntr
    tr = Trace()
    with warnings.catch_warnings(record=True) as wlist:
        warnings.simplefilter('always')
        try:
            with hooks(tr, wn, fault=fault, deep=deep):
                if sim is None:
                    sim = wntr.sim.WNTRSimulator(wn)
                tr.results = sim.run_sim(**kw)
        except BaseException as e:   # noqa
            if isinstance(e, (KeyboardInterrupt, SystemExit)) or type(e).__name__ == 'CaseTimeout':
                raise
            tr.exception = e
            import traceback
            tr.traceback = traceback.format_exc()[-2500:]
    tr.warnings = [str(w.message) for w in wlist]
    return tr


def run_epanet(wn, prefix=None, version=2.2, **kw):
    """EpanetSimulator in a private temp dir (removed afterwards)."""
    import os
    import shutil
    import tempfile
    import wntr
    tr = Trace()
    d = tempfile.mkdtemp(prefix='verif_epa_')
    with warnings.catch_warnings(record=True) as wlist:
        warnings.simplefilter('always')
        try:
            sim = wntr.sim.EpanetSimulator(wn)
            tr.results = sim.run_sim(file_prefix=os.path.join(d, prefix or 'm'), version=version, **kw)
        except BaseException as e:  # noqa
            if isinstance(e, (KeyboardInterrupt, SystemExit)) or type(e).__name__ == 'CaseTimeout':
                raise
            tr.exception = e
            import traceback
            tr.traceback = traceback.format_exc()[-2500:]
        finally:
            shutil.rmtree(d, ignore_errors=True)
    tr.warnings = [str(w.message) for w in wlist]
    return tr


def converged(tr):
    if not tr.ok:
        return False
    if tr.results.error_code is not None:
        return False
    return True
