"""Rebuild WNTR's two C++ extensions from /repo's *current* sources.

The .so files checked into /repo are stale as soon as someone edits evaluator.cpp or
network_isolation.cpp.  Every check therefore compiles the sources it finds in the working
tree into /verif/.build/<content-hash>/ (cache keyed by content + flags) and boot.py makes the
interpreter load those instead of the binaries in /repo.  Nothing in /repo is written.
"""
import hashlib
import os
import subprocess
import sys
import sysconfig

REPO = os.environ.get('VERIF_REPO', '/repo')
VERIF = os.path.dirname(os.path.dirname(os.path.abspath(__file__)))
BUILD = os.path.join(VERIF, '.build')

ASAN_RT = '/usr/lib/llvm-14/lib/clang/14.0.6/lib/linux/libclang_rt.asan-x86_64.so'

EXTS = {
    'wntr.sim.aml._evaluator': (
        'wntr/sim/aml', ['evaluator.cpp', 'evaluator_wrap.cpp'], ['evaluator.hpp']),
    'wntr.sim.network_isolation._network_isolation': (
        'wntr/sim/network_isolation', ['network_isolation.cpp', 'network_isolation_wrap.cpp'],
        ['network_isolation.hpp']),
}


class BuildError(Exception):
    pass


def _flags(kind):
    if kind == 'plain':
        return ['g++', '-O2', '-fPIC', '-shared', '-std=c++11', '-w']
    if kind == 'asan':
        return ['clang++-14', '-O1', '-g', '-fPIC', '-shared', '-std=c++11', '-w',
                '-fsanitize=address,undefined', '-fno-omit-frame-pointer',
                '-fno-sanitize-recover=undefined', '-shared-libasan']
    raise ValueError(kind)


def build(kind='plain'):
    """Returns {module_name: path_to_so}; compiles when the content hash is new."""
    import numpy
    py_inc = sysconfig.get_paths()['include']
    np_inc = numpy.get_include()
    suffix = sysconfig.get_config_var('EXT_SUFFIX')
    out = {}
    for mod, (d, srcs, hdrs) in EXTS.items():
        sd = os.path.join(REPO, d)
        h = hashlib.sha256()
        h.update(kind.encode())
        h.update(sys.version.encode())
        h.update(' '.join(_flags(kind)).encode())
        for f in srcs + hdrs + ['numpy.i']:
            p = os.path.join(sd, f)
            if os.path.exists(p):
                with open(p, 'rb') as fh:
                    h.update(f.encode() + b'\0' + fh.read())
        key = h.hexdigest()[:20]
        bd = os.path.join(BUILD, kind + '-' + key)
        so = os.path.join(bd, mod.split('.')[-1] + suffix)
        if not os.path.exists(so):
            os.makedirs(bd, exist_ok=True)
            tmp = so + '.tmp%d' % os.getpid()
            cmd = _flags(kind) + ['-I', py_inc, '-I', np_inc, '-I', sd] + \
                [os.path.join(sd, s) for s in srcs] + ['-o', tmp]
            r = subprocess.run(cmd, capture_output=True, text=True)
            if r.returncode != 0:
                raise BuildError('native build failed (%s %s):\n%s' % (kind, mod, r.stderr[-4000:]))
            os.replace(tmp, so)
        out[mod] = so
    return out


def asan_env(log_prefix):
    env = {}
    env['LD_PRELOAD'] = ASAN_RT
    env['ASAN_OPTIONS'] = ('detect_leaks=0:halt_on_error=1:abort_on_error=0:exitcode=87:'
                           'allocator_may_return_null=1:log_path=%s' % log_prefix)
    env['UBSAN_OPTIONS'] = 'print_stacktrace=1:halt_on_error=1:exitcode=87:log_path=%s' % log_prefix
    return env


if __name__ == '__main__':
    for k in sys.argv[1:] or ['plain']:
        print(k, build(k))
