"""Independent reference models: adjacency, demand clock, reachability, hydraulic laws.

Nothing here calls into WNTR's simulator, registries' usage maps or pattern evaluation: only the
elements' own *definition* attributes are read (names of end nodes, base values, multipliers).
"""
import math

G = 9.81
RHO = 1000.0
HTOL = 1.524e-4
QTOL = 2.83168e-6


class Topo(object):
    def __init__(self, wn):
        self.inlets, self.outlets = {}, {}
        self.links = {}
        self.node_type = {}
        for n, o in wn.nodes():
            self.inlets[n] = []
            self.outlets[n] = []
            self.node_type[n] = o.node_type
        for n, l in wn.links():
            a, b = l.start_node_name, l.end_node_name
            self.links[n] = (a, b)
            self.outlets[a].append(n)
            self.inlets[b].append(n)

    def incident(self, node):
        return self.inlets[node] + self.outlets[node]

    def connected_nodes(self, closed):
        """Nodes joined to a tank/reservoir by links not in `closed` (BFS)."""
        adj = {n: [] for n in self.node_type}
        for ln, (a, b) in self.links.items():
            if ln not in closed:
                adj[a].append(b)
                adj[b].append(a)
        seen = set(n for n, t in self.node_type.items() if t in ('Tank', 'Reservoir'))
        stack = list(seen)
        while stack:
            x = stack.pop()
            for y in adj[x]:
                if y not in seen:
                    seen.add(y)
                    stack.append(y)
        return seen


def pattern_mult(mults, t, pattern_timestep, wrap=True, interp=False):
    n = len(mults)
    if n == 0:
        return 1.0
    if n == 1:
        return float(mults[0])
    step = int(math.floor(t / pattern_timestep))
    if wrap:
        if interp:
            # options.time.pattern_interpolation: linear between this step's multiplier and the next one's (wrapping)
            m0, m1 = float(mults[step % n]), float(mults[(step + 1) % n])
            return m0 + (m1 - m0) * (t - step * pattern_timestep) / float(pattern_timestep)
        return float(mults[step % n])
    if step < 0 or step >= n:
        return 0.0
    return float(mults[step])


def requested_demand(wn, junction, t):
    """sum over demand entries of base x multiplier(t + pattern_start) x demand multiplier."""
    ts = wn.options.time
    total = 0.0
    for d in junction.demand_timeseries_list:
        base = d.base_value
        pat = d.pattern
        if pat is None and wn.options.hydraulic.pattern is not None and str(wn.options.hydraulic.pattern) in wn.pattern_name_list:
            pat = wn.get_pattern(str(wn.options.hydraulic.pattern))      # the model's default pattern
        if pat is None:
            m = 1.0
        else:
            m = pattern_mult(list(pat.multipliers), t + ts.pattern_start, ts.pattern_timestep, getattr(pat, 'wrap', True), bool(ts.pattern_interpolation))
        total += base * m
    return total * wn.options.hydraulic.demand_multiplier


def head_mult(wn, reservoir, t, with_pattern_start):
    ts = wn.options.time
    pat = reservoir.head_timeseries.pattern
    if pat is None:
        return 1.0
    tt = t + (ts.pattern_start if with_pattern_start else 0)
    return pattern_mult(list(pat.multipliers), tt, ts.pattern_timestep, getattr(pat, 'wrap', True), bool(ts.pattern_interpolation))


# ---- hydraulic laws (documentation constants) -------------------------------------------------
def hw_k(roughness, diameter, length):
    return 10.667 * roughness ** (-1.852) * diameter ** (-4.871) * length


def minor_k(K, diameter):
    return 8.0 * K / (G * math.pi ** 2 * diameter ** 4)


def pump_fit(points):
    """Documented rules: 1 point A=4H/3,B=H/(3Q^2),C=2; 2 points: straight line; 3 points: A-BQ^C through all."""
    pts = sorted((float(q), float(h)) for q, h in points)
    if len(pts) == 1:
        q, h = pts[0]
        return 4.0 * h / 3.0, h / (3.0 * q * q), 2.0
    if len(pts) == 2:
        (q0, h0), (q1, h1) = pts
        B = -(h1 - h0) / (q1 - q0)
        return h0 + B * q0, B, 1.0
    if len(pts) == 3 and pts[0][0] == 0.0:
        (q0, h0), (q1, h1), (q2, h2) = pts
        A = h0
        C = math.log((h0 - h2) / (h0 - h1)) / math.log(q2 / q1)
        B = (h0 - h1) / q1 ** C
        return A, B, C
    return None


def tank_volume(tank, level, curve_points=None):
    if curve_points is None:
        return math.pi * tank.diameter ** 2 / 4.0 * level
    return interp(level, [p[0] for p in curve_points], [p[1] for p in curve_points])


def interp(x, xs, ys):
    if x <= xs[0]:
        return ys[0]
    if x >= xs[-1]:
        return ys[-1]
    for i in range(1, len(xs)):
        if x <= xs[i]:
            f = (x - xs[i - 1]) / (xs[i] - xs[i - 1])
            return ys[i - 1] + f * (ys[i] - ys[i - 1])
    return ys[-1]
