"""Fan a property's workload out to worker subprocesses, aggregate, write evidence, decide."""
import argparse
import importlib
import json
import os
import shutil
import subprocess
import sys
import time

VERIF = os.path.dirname(os.path.dirname(os.path.abspath(__file__)))
sys.path.insert(0, VERIF)
from vlib import native, kf  # noqa: E402

PY = '/venv/bin/python'
SCRATCH = os.path.join(VERIF, '.scratch')
EVID = os.path.join(VERIF, 'evidence')
REPLAY = os.path.join(VERIF, 'replay')


def _spawn(prop, seed, tier, cases, out, variant, case_timeout, logprefix):
    env = dict(os.environ)
    env['PYTHONHASHSEED'] = '0'
    env['PYTHONPATH'] = VERIF
    env['VERIF_NATIVE'] = 'asan' if variant == 'asan' else 'plain'
    env['OMP_NUM_THREADS'] = '1'
    env['OPENBLAS_NUM_THREADS'] = '1'
    env['MKL_NUM_THREADS'] = '1'
    env['MPLBACKEND'] = 'Agg'
    env.pop('PYTHONWARNINGS', None)
    if variant == 'asan':
        env.update(native.asan_env(logprefix))
    cmd = [PY, '-W', 'ignore', '-m', 'vlib.worker', '--prop', prop, '--seed', str(seed), '--tier', tier,
           '--cases', ','.join(map(str, cases)), '--out', out, '--variant', variant,
           '--case-timeout', str(case_timeout)]
    errf = open(out + '.stderr', 'ab')
    # a private cwd per worker: EPANET drops en* temp files there and EpanetSimulator's default
    # file_prefix writes temp.inp/.bin/.rpt into cwd - concurrent workers must not share them
    wd = out + '.cwd'
    os.makedirs(wd, exist_ok=True)
    return subprocess.Popen(cmd, cwd=wd, env=env, stdout=errf, stderr=errf)


def _read_out(path):
    recs, started, done, fatal = [], None, False, None
    if not os.path.exists(path):
        return recs, started, done, fatal
    with open(path) as f:
        for line in f:
            line = line.strip()
            if not line:
                continue
            try:
                r = json.loads(line)
            except ValueError:
                continue
            if 'start' in r:
                started = r['start']
            elif 'done' in r:
                done = True
            elif 'fatal' in r:
                fatal = r
            else:
                recs.append(r)
                if started == r['index']:
                    started = None
    return recs, started, done, fatal


def run_jobs(prop, seed, tier, jobs_spec, njobs, case_timeout, worker_timeout, run_dir):
    """jobs_spec: list of (variant, [case indices]).  Returns list of result records."""
    results = []
    pending = []   # (variant, cases)
    for variant, cases in jobs_spec:
        if not cases:
            continue
        k = min(njobs, len(cases))
        for j in range(k):
            chunk = cases[j::k]
            if chunk:
                pending.append((variant, chunk))
    running = []
    serial = [0]
    deadline_all = time.time() + worker_timeout

    def start(variant, chunk):
        serial[0] += 1
        out = os.path.join(run_dir, 'w%04d.jsonl' % serial[0])
        logp = os.path.join(run_dir, 'san%04d' % serial[0])
        p = _spawn(prop, seed, tier, chunk, out, variant, case_timeout, logp)
        running.append({'p': p, 'variant': variant, 'chunk': chunk, 'out': out, 'log': logp,
                        't0': time.time()})

    while pending or running:
        while pending and len(running) < njobs:
            v, ch = pending.pop(0)
            start(v, ch)
        time.sleep(0.05)
        for w in list(running):
            rc = w['p'].poll()
            timed_out = time.time() > deadline_all
            if rc is None and not timed_out:
                continue
            if rc is None:
                w['p'].kill()
                w['p'].wait()
            running.remove(w)
            recs, started, done, fatal = _read_out(w['out'])
            results.extend(recs)
            got = set(r['index'] for r in recs)
            rest = [c for c in w['chunk'] if c not in got]
            if fatal is not None:
                for c in rest:
                    results.append(_synthetic(c, w['variant'], 'inconclusive',
                                              'worker_boot_failed: ' + fatal.get('trace', '')[-600:]))
                continue
            if timed_out and rc is None:
                for c in rest:
                    results.append(_synthetic(c, w['variant'], 'inconclusive', 'worker_watchdog'))
                continue
            if done:
                continue
            # worker died in the middle of case `started`
            san = _sanitizer_reports(w['log'])
            stderr_tail = _tail(w['out'] + '.stderr')
            if started is not None and started in rest:
                rest.remove(started)
                if san:
                    r = _synthetic(started, w['variant'], 'violated', None)
                    r['violations'] = [{'kind': 'sanitizer_report', 'msg': san[0][:300],
                                        'witness': {'report': san[0][:3000], 'exit': rc}}]
                elif rc is not None and rc < 0:
                    r = _synthetic(started, w['variant'], 'violated', None)
                    r['violations'] = [{'kind': 'native_crash', 'msg': 'worker killed by signal %d' % -rc,
                                        'witness': {'stderr': stderr_tail}}]
                else:
                    r = _synthetic(started, w['variant'], 'inconclusive',
                                   'worker_exit_%s: %s' % (rc, stderr_tail[-400:]))
                results.append(r)
            elif started is None and not recs and rest:
                # died before the first case: environment problem, do not loop forever
                for c in rest:
                    results.append(_synthetic(c, w['variant'], 'inconclusive',
                                              'worker_died_early rc=%s: %s' % (rc, stderr_tail[-400:])))
                rest = []
            if rest:
                pending.append((w['variant'], rest))
    return results


def _synthetic(i, variant, verdict, why):
    return {'index': i, 'verdict': verdict, 'why': why, 'sig': None, 'nontrivial': False,
            'counters': {}, 'violations': [], 'sample': None, 'variant': variant, 'wall': 0}


def _tail(path, n=1500):
    try:
        with open(path, 'rb') as f:
            return f.read()[-n:].decode('utf8', 'replace')
    except OSError:
        return ''


def _sanitizer_reports(prefix):
    out = []
    d = os.path.dirname(prefix)
    b = os.path.basename(prefix)
    for f in sorted(os.listdir(d)):
        if f.startswith(b + '.'):
            txt = _tail(os.path.join(d, f), 6000)
            if 'ERROR: AddressSanitizer' in txt or 'runtime error:' in txt or 'Sanitizer' in txt:
                out.append(txt)
    return out


def main(argv=None):
    ap = argparse.ArgumentParser()
    ap.add_argument('prop')
    ap.add_argument('--tier', default=os.environ.get('VERIF_TIER', 'quick'))
    ap.add_argument('--replay')
    ap.add_argument('--jobs', type=int, default=int(os.environ.get('VERIF_JOBS', '16')))
    ap.add_argument('--cases', type=int, default=None, help='override number of cases')
    ap.add_argument('--only', default=None, help='comma list of case indices (debug)')
    ap.add_argument('--no-evidence', action='store_true')
    a = ap.parse_args(argv)
    prop = a.prop.upper()
    tier = a.tier
    if tier not in ('quick', 'thorough'):
        tier = 'quick'
    seed = int(os.environ.get('VERIF_SEED', '0') or 0)
    mod = importlib.import_module('vlib.props.' + prop.lower())

    if a.replay:
        return replay(mod, prop, a.replay)

    t0 = time.time()
    # natives: rebuilt from /repo's working tree; failure is inconclusive, not a verdict
    try:
        native.build('plain')
        want_asan = bool(getattr(mod, 'asan_cases', None))
        if want_asan:
            native.build('asan')
    except native.BuildError as e:
        print('INCONCLUSIVE property=%s native build failed: %s' % (prop, str(e)[-1500:]))
        return 2
    if getattr(mod, 'NEED_DEPS', False):
        from vlib import boot
        boot.ensure_deps()

    n = a.cases if a.cases is not None else mod.n_cases(tier)
    cases = list(range(n))
    if a.only:
        cases = [int(x) for x in a.only.split(',')]
    spec = [('plain', cases)]
    if getattr(mod, 'asan_cases', None) and not a.only:
        spec.append(('asan', list(mod.asan_cases(tier))))
    run_dir = os.path.join(SCRATCH, '%s-%s-%d-%d' % (prop, tier, seed, os.getpid()))
    shutil.rmtree(run_dir, ignore_errors=True)
    os.makedirs(run_dir)
    try:
        case_to = getattr(mod, 'CASE_TIMEOUT', {}).get(tier, 120)
        worker_to = getattr(mod, 'RUN_TIMEOUT', {}).get(tier, 900 if tier == 'quick' else 7200)
        results = run_jobs(prop, seed, tier, spec, a.jobs, case_to, worker_to, run_dir)
    finally:
        if not os.environ.get('VERIF_KEEP_SCRATCH'):
            shutil.rmtree(run_dir, ignore_errors=True)
    return conclude(mod, prop, tier, seed, results, time.time() - t0, not a.no_evidence and not a.only)


def conclude(mod, prop, tier, seed, results, wall, write_evidence=True):
    counters = {}
    verdicts = {'held': 0, 'violated': 0, 'inconclusive': 0}
    why = {}
    sigs = set()
    samples = []
    viols = []
    for r in sorted(results, key=lambda r: (r.get('variant', ''), r['index'])):
        verdicts[r['verdict']] += 1
        for k, v in (r.get('counters') or {}).items():
            counters[k] = counters.get(k, 0) + v
        if r.get('variant') == 'asan':
            counters['asan_cases'] = counters.get('asan_cases', 0) + 1
        if r['verdict'] == 'inconclusive':
            w = (r.get('why') or '?').split(':')[0]
            why[w] = why.get(w, 0) + 1
        if r['verdict'] != 'inconclusive' and r.get('nontrivial') and r.get('sig') is not None:
            sigs.add(r['sig'])
        if r.get('sample') is not None and r['verdict'] != 'inconclusive' and len(samples) < 4 \
                and (r.get('nontrivial') or len(samples) < 1):
            samples.append({'case': r['index'], 'variant': r.get('variant'), 'sample': r['sample']})
        for v in r.get('violations') or []:
            viols.append((r, v))

    known = kf.load(prop)
    new_viol, seen_known = [], {}
    for r, v in viols:
        k = kf.match(known, v)
        if k is None:
            new_viol.append((r, v))
        else:
            seen_known.setdefault(k['key'], (k, r, v))

    lines = []
    rc = 0
    if viols:
        hist = {}
        for r, v in viols:
            h = hist.setdefault(v['kind'], [0, r['index'], v['msg']])
            h[0] += 1
        print('  violation kinds (raw, before known-finding matching): ' + '; '.join(
            '%s x%d (e.g. case %d)' % (k, h[0], h[1]) for k, h in sorted(hist.items(), key=lambda kv: -kv[1][0])))
    os.makedirs(os.path.join(REPLAY, prop), exist_ok=True)
    reported = set()
    for r, v in new_viol:
        key = (r['index'], r.get('variant'), v['kind'])
        if key in reported:
            continue
        reported.add(key)
        if len(reported) > 25:
            break
        path = os.path.join(REPLAY, prop, 'seed%d-%s-%s-case%d-%s.json' % (
            seed, tier, r.get('variant', 'plain'), r['index'], _slug(v['kind'])))
        with open(path, 'w') as f:
            json.dump({'property': prop, 'seed': seed, 'tier': tier, 'index': r['index'],
                       'variant': r.get('variant', 'plain'), 'violation': v,
                       'sample': r.get('sample')}, f, indent=1, sort_keys=True, default=str)
        lines.append('VIOLATION property=%s replay=%s' % (prop, path))
        lines.append('  kind=%s %s' % (v['kind'], v['msg'][:400]))
        rc = 1
    for key, (k, r, v) in sorted(seen_known.items()):
        lines.append('KNOWN-FINDING: property=%s %s [%s] e.g. case %d: %s' % (
            prop, k['mechanism'], key, r['index'], v['msg'][:200]))

    conclusive = verdicts['held'] + verdicts['violated']
    floors = getattr(mod, 'FLOORS', {}).get(tier, {})
    # measured floors (tools/floors.py --write): one third of the minimum the unchanged tree produced over the swept seeds
    fj = os.path.join(os.path.dirname(os.path.abspath(__file__)), 'floors.json')
    if os.path.exists(fj):
        try:
            floors = json.load(open(fj)).get(prop, {}).get(tier) or floors
        except ValueError:
            pass
    if os.environ.get('VERIF_NO_FLOORS'):
        floors = {}         # used only by tools/floors.py while it measures
    short = []
    if conclusive < floors.get('conclusive', 1):
        short.append('conclusive=%d<%d' % (conclusive, floors.get('conclusive', 1)))
    if len(sigs) < max(2, floors.get('distinct_nontrivial', 2)):
        short.append('distinct_nontrivial=%d<%d' % (len(sigs), max(2, floors.get('distinct_nontrivial', 2))))
    for cname, cmin in floors.get('counters', {}).items():
        if counters.get(cname, 0) < cmin:
            short.append('%s=%d<%d' % (cname, counters.get(cname, 0), cmin))
    if rc == 0 and short:
        lines.append('INCONCLUSIVE property=%s coverage floor not met: %s; inconclusive reasons: %s' % (
            prop, ', '.join(short), json.dumps(why, sort_keys=True)))
        rc = 2

    ev = {
        'property_id': prop, 'tier': tier, 'seed': seed, 'level': getattr(mod, 'LEVEL', 'exploration'),
        'coverage': {
            'evaluations': len(results),
            'distinct_nontrivial': len(sigs),
            'rule': (mod.RULE if isinstance(mod.RULE, str) else ' '.join(mod.RULE)) + ((' ' + mod.RULE_ADDENDUM) if getattr(mod, 'RULE_ADDENDUM', None) else ''),
            'samples': samples or [{'note': 'no conclusive non-trivial case'}],
            'verdicts': verdicts,
            'inconclusive_reasons': why,
            'observed': dict(sorted(counters.items())),
            'known_findings_seen': sorted(seen_known),
            'floors': floors,
            'exhaustive': bool(getattr(mod, 'EXHAUSTIVE', False)),
        },
        'assumptions': list(getattr(mod, 'ASSUMPTIONS', [])),
        'wall_s': round(wall, 2),
        'violations': len(reported),
    }
    if write_evidence:
        os.makedirs(EVID, exist_ok=True)
        tmp = os.path.join(EVID, prop + '.json.tmp')
        with open(tmp, 'w') as f:
            json.dump(ev, f, indent=1, sort_keys=True, default=str)
        os.replace(tmp, os.path.join(EVID, prop + '.json'))
    print('%s tier=%s seed=%d cases=%d held=%d violated=%d inconclusive=%d distinct_nontrivial=%d wall=%.1fs' % (
        prop, tier, seed, len(results), verdicts['held'], verdicts['violated'], verdicts['inconclusive'],
        len(sigs), wall))
    print('  observed: ' + ', '.join('%s=%d' % kv for kv in sorted(counters.items())))
    slow = sorted(results, key=lambda r: -r.get('wall', 0))[:3]
    print('  slowest cases: ' + ', '.join('#%d(%s) %.1fs' % (r['index'], r.get('variant', ''), r.get('wall', 0)) for r in slow))
    if why:
        print('  inconclusive: ' + json.dumps(why, sort_keys=True))
    for ln in lines:
        print(ln)
    sys.stdout.flush()
    return rc


def _slug(s):
    return ''.join(ch if ch.isalnum() else '_' for ch in s)[:60]


def replay(mod, prop, path):
    from vlib import boot, case as caselib
    with open(path) as f:
        rp = json.load(f)
    os.environ.setdefault('PYTHONHASHSEED', '0')
    native.build('plain')
    boot.setup(need_deps=getattr(mod, 'NEED_DEPS', False))
    import warnings
    warnings.simplefilter('ignore')
    if hasattr(mod, 'worker_init'):
        mod.worker_init(rp['tier'], 'plain')
    c = caselib.Case(prop, rp['seed'], rp['tier'], rp['index'])
    c.variant = 'plain'
    mod.run_case(c, caselib.case_rng(prop, rp['seed'], rp['index']))
    r = c.result()
    print(json.dumps(r, indent=1, sort_keys=True, default=str)[:20000])
    known = kf.load(prop)
    bad = [v for v in r['violations'] if kf.match(known, v) is None]
    if bad:
        print('VIOLATION property=%s replay=%s' % (prop, path))
        return 1
    return 0


if __name__ == '__main__':
    sys.exit(main())
