"""Regenerates /verif/MANIFEST.json from the table below (run: /venv/bin/python -m vlib.manifest_gen)."""
import json
import os
import sys

VERIF = os.path.dirname(os.path.dirname(os.path.abspath(__file__)))
sys.path.insert(0, VERIF)

BASELINE = ('cd /repo && /venv/bin/python -m pytest -ra -q -p no:cacheprovider --timeout=900 '
            '--continue-on-collection-errors --junitxml=/tmp/wntr_baseline.junit.xml')

# id -> (category, technique, level text, level note, design ref)
CHECKS = {}


def check(pid, category, technique, text, note, ref):
    CHECKS[pid] = (category, technique, text, note, ref)


check('C17', 'exploration',
      'runtime oracle on every to_si/from_si call pair: inverse, linearity, container, independent physical factor table',
      'Exhaustive over the discrete space (11 flow units x 23 parameters x mass units x reaction orders x darcy flag x 6 '
      'container types) with random values; each call pair of the real functions is judged by four oracles. Held = no '
      'conversion observed disagreed with the physical table or its inverse.',
      'Reference table taken from the statement/EPANET manual; FlowUnits.SI factor of diameter/power/roughness not judged.',
      'DESIGN.md#C17')

NOT_YET = 'monitor not built yet in this commit (planned in DESIGN.md section 4)'
ALL = ['C%02d' % i for i in range(1, 21)]


def main():
    checks = []
    for pid in ALL:
        if pid not in CHECKS:
            continue
        cat, tech, text, note, ref = CHECKS[pid]
        checks.append({
            'property_id': pid,
            'quick_cmd': './check %s --tier quick' % pid,
            'thorough_cmd': './check %s --tier thorough' % pid,
            'evidence_file': '/verif/evidence/%s.json' % pid,
            'replay_cmd_template': './check %s --replay {path}' % pid,
            'engine': 'wntr-runtime-monitors',
            'level_claimed': {'category': cat, 'text': text, 'design_ref': ref},
            'level_note': note,
            'technique': tech,
        })
    m = {
        'version': 1,
        'setup_cmd': '/venv/bin/python -m vlib.setup',
        'hooks': {
            'guard': 'WNTR_VERIF',
            'enable': 'no source hooks: monitors wrap module-level functions and classes of the working tree from '
                      'outside (vlib/boot.py rebind, icontract decorators); natives are rebuilt from /repo/*.cpp by vlib/native.py',
            'baseline_off_cmd': BASELINE,
            'source_commits': [],
            'add_only': True,
        },
        'engines': [{
            'name': 'wntr-runtime-monitors', 'path': '/verif/vlib',
            'serves_properties': [c['property_id'] for c in checks],
            'kind_free_text': 'runtime monitoring: seeded hostile workloads drive the real WNTR code (working tree, '
                              'natives rebuilt, ASan+UBSan variant) while independent oracles judge every observed event',
        }],
        'checks': checks,
        'not_applicable': [{'property_id': p, 'reason': NOT_YET} for p in ALL if p not in CHECKS],
        'notes': 'exit 0 held / 1 VIOLATION / 2 INCONCLUSIVE (coverage floor not met or build failed). '
                 'Known findings: /verif/known_findings.json (keyed by mechanism). Seeded breakages: /verif/seeded/.',
    }
    with open(os.path.join(VERIF, 'MANIFEST.json'), 'w') as f:
        json.dump(m, f, indent=1)
    print('wrote MANIFEST.json with %d checks' % len(checks))


if __name__ == '__main__':
    main()
