"""Regenerates /verif/MANIFEST.json from the table below (run: /venv/bin/python -m vlib.manifest_gen)."""
import json
import os
import sys

VERIF = os.path.dirname(os.path.dirname(os.path.abspath(__file__)))
sys.path.insert(0, VERIF)

BASELINE = ('cd /repo && /venv/bin/python -m pytest -ra -q -p no:cacheprovider --timeout=900 '
            '--continue-on-collection-errors --junitxml=/tmp/wntr_baseline.junit.xml')

# id -> (category, technique, level text, level note, design ref)
CHECKS = {}


def check(pid, category, technique, text, note, ref):
    CHECKS[pid] = (category, technique, text, note, ref)


check('C17', 'exploration',
      'runtime oracle on every to_si/from_si call pair: inverse, linearity, container, independent physical factor table',
      'Exhaustive over the discrete space (11 flow units x 23 parameters x mass units x reaction orders x darcy flag x 6 '
      'container types) with random values; each call pair of the real functions is judged by four oracles. Held = no '
      'conversion observed disagreed with the physical table or its inverse.',
      'Reference table taken from the statement/EPANET manual; FlowUnits.SI factor of diameter/power/roughness not judged.',
      'DESIGN.md#C17')

SIMNOTE = ('Oracle independent of the simulator (adjacency from link end-node names, own pattern clock, documented laws); '
           'runs that do not converge are inconclusive; held = no observed event contradicted the oracle on the executions '
           'listed in the evidence file, nothing is claimed about networks the generators cannot produce.')
check('C01', 'exploration', 'offline checker over reported result tables: per-node flow balance + independent demand clock, on seeded random networks, perturbed example and test networks, and every simulation the repository\'s own tests make (pytest plugin wrapping run_sim)',
      'Every junction/tank/reservoir x reported step of hundreds of seeded simulations (loops, parallel links, tanks, leaks, '
      'isolation schedules, DD/PDD, pattern_start) is checked for |in-out-demand-leak| <= solver tolerance and DD demand == '
      'base x pattern(t+pattern_start) x multiplier. The same oracle judges the hand-made test networks of the repository and, through a pytest '
      'plugin, every run_sim call of a set of the repository\'s test files.', SIMNOTE, 'DESIGN.md#C01')
check('C02', 'exploration', 'offline checker of the documented head-flow law per link type x reported status, plus evaluator sweep of pipe rows; reference pump-curve fit',
      'Every link x reported step judged by its type/status law with coefficients recomputed independently; valve rigs force '
      'every status bucket (coverage floors per bucket); pipe rows swept through the compiled evaluator for oddness, '
      'monotonicity, continuity; in-place pump-curve re-calibration histories; the repository\'s test networks and the simulations of its own '
      'test files (pytest plugin) are judged by the same oracle.', SIMNOTE, 'DESIGN.md#C02')
check('C06', 'exploration', 'hook on every accepted solved step (incl. partial steps): tank volume integration against reference volume function, limit and no-discharge/no-fill checks',
      'Every pair of consecutive accepted steps x tank: V(level) changes by inflow x dt (cylinder or reference interpolation '
      'of the volume curve); level within [min,max] up to 2 s of flow; no discharge at min / fill at max.', SIMNOTE, 'DESIGN.md#C06')
check('C09', 'exploration', 'isolation flags observed at the save_results hook vs reference BFS over reported statuses; spy on the C++ search arrays; ASan+UBSan re-run',
      'Every junction x reported step: isolated <=> no path of non-closed links to a source <=> zeroed results; connected => '
      'never flagged and (DD) full demand; each call of the C++ search compared with BFS on the same CSR arrays; a subset of '
      'cases repeated under the sanitizer build of network_isolation.cpp.', SIMNOTE, 'DESIGN.md#C09')
check('C08', 'exploration', 'offline checker of leak demand vs Cd*A*sqrt(2gp) and the configured window per reported step, over run/reset/remove/continue histories',
      'Every leaking junction/tank x reported step: leak == Cd*A*sqrt(2*g*p) while active and p>0, zero otherwise/outside the '
      'window/after remove_leak; off-grid window edges are solved instants; node balance includes the leak; histories: single run, '
      'run/reset/run, add+remove, run/remove/continue.', SIMNOTE, 'DESIGN.md#C08')
check('C10', 'exploration', 'history oracle: concatenated results of paused/pickled/continued runs vs one uninterrupted run of an identically built model',
      'Seeded networks with tanks, controls, rules, leaks, isolation schedules; 1-3 pauses on the hydraulic grid with/without '
      'pickle, new simulator per part; index continuation rules and value/status equality to solver tolerance, with a '
      'noise-amplification rule that separates defects (jumps) from explicit-Euler amplification of solver noise; controls and rules are also '
      'placed right after the pause instants on rule grids that do not divide the hydraulic step.',
      SIMNOTE, 'DESIGN.md#C10')
check('C11', 'exploration', 'to_dict snapshot contract around run_sim of both simulators + run/reset/run and equal-model (deepcopy, pickle, dict) result comparison',
      'Definition (JSON-normalised to_dict) compared before/after every WNTRSimulator and EpanetSimulator run; run 1 vs run n '
      'after reset_initial_values; original vs deepcopy/pickle/dict copies; models built through the API without a prior reset, '
      'non-default initial statuses, odd report steps, leaks on junctions and tanks; the dict contract is also evaluated around every run_sim call '
      'of a set of the repository\'s own test files (pytest plugin).', SIMNOTE, 'DESIGN.md#C11')
check('C16', 'fault_enumeration', 'fault injection at the _solver_helper hook for every solve index k x {warn, raise, backup ok, backup fails} + organic iteration/trial limits; shape and prefix oracles',
      'Clean run counts N solves (logical clock); each solve k is made to fail (all k in thorough, sampled in quick) under four '
      'regimes; returned tables must share one increasing index on the report grid with exactly one column per element and '
      'finite values, the failure must be raised or warned + error_code, and the rows reported before it must equal the '
      'non-failing run. The shape oracle also runs on every simulation of a set of the repository\'s own test files (pytest plugin).', 'Fault model: the solver reports SolverStatus.error at the _solver_helper boundary. ' + SIMNOTE, 'DESIGN.md#C16')

check('C15', 'exploration', 'reference-model monitor: compiled residuals/Jacobian/indices after every set_structure of random add/remove/change histories vs dual-number evaluation of the generator\'s own expression tree; ASan+UBSan re-run of evaluator.cpp',
      'Random expression DAGs (all operators, reflected/folding constants, shared sub-expressions and Float/Param leaves across constraints, if_else, '
      'ConditionalExpression with 1-3 conditions) under histories of add / remove / re-add / delete ConstraintDict / set values / load x; after every '
      'set_structure every residual row, every Jacobian entry (incl. structural zeros), Constraint.index, Var.index and get_x are compared with an '
      'independent dual-number evaluation; exact boundary points of inequalities and abs/sign kinks compare values only; 120 (quick) / 1500 (thorough) '
      'histories are repeated under the sanitizer build.',
      'Reference: forward-mode dual numbers over the generator tree (vlib/gen/expr.py), nothing from wntr. Points outside the domain of definition are '
      'rejected and resampled. A clean sanitizer run means 0 report blocks on these histories, not memory safety.', 'DESIGN.md#C15')

check('C14', 'exploration', 'invariant at a hook + shadow-model monitor: every view of WaterNetworkModel read after every operation of random edit histories, compared with each other and with a lock-step shadow; refusal oracle (raised + full snapshot unchanged)',
      'Histories of 10-200 add/remove/reassign operations (all element kinds, duplicate names, missing end nodes, in-use removals, with_control) '
      'from empty, seeded and example models; after every operation all name lists, counts, typed iterators, describe(0-2), link end objects, '
      'get_links_for_node x3 flags, to_graph, usage/orphaned/unused of five registries, typed curve views and control requirements are checked '
      'for mutual consistency and against the shadow model; refused operations must leave a full snapshot unchanged.',
      'Shadow model: 120 lines of dicts, independent of the registries. force=True removals are outside the workload.', 'DESIGN.md#C14')
check('C13', 'exploration', 'round-trip oracle: to_dict -> JSON -> from_dict -> to_dict structural diff per path (3 paths + second cycle), plus logical-shape comparison of rule conditions',
      'G-model (every element kind and attribute, vertices/tags on all link types, multi-demand and demand-less junctions, curves, sources, '
      'timed leaks, controls and rules) and the example files; dict/json, write_json/read_json and append-to-empty paths; every differing path '
      'is reported with its path class as mechanism key; rule conditions are additionally compared as AND-of-OR shapes because identical text can hide a regrouping.',
      'Normalisations are exactly those of the statement (tuples, empty pattern names, demand-less junction -> one zero demand) plus runs of blanks in control text.', 'DESIGN.md#C13')

check('C18', 'exploration', 'reference-model monitor: union-find partition of nodes U links vs the labels returned by valve_segments (bijection label <-> class), recounted segment sizes, re-derived valve attributes',
      'Random multigraphs (parallel links, dead ends, second component, isolated node) x valve layers (0-100 % density, duplicated rows, '
      'subset numbering, rings around a node, generate_valve_layer strategic/random): labels positive, same label <=> same union-find class, '
      'seg_sizes recounted, num_surround / demand_increase / length_increase recomputed per valve.',
      'A valve row names a link and one of its end nodes; counting convention for num_surround as documented (valves adjacent to either segment).', 'DESIGN.md#C18')

check('C20', 'exploration', 'reference-formula monitor: every wntr.metrics value recomputed from the documented formula with plain loops; expected_demand additionally compared with the demand a DD WNTRSimulator run delivers',
      'Random networks with hostile pattern clocks (periods not dividing 24 h, pattern_start, categories, multiplier) and random result tables: '
      'expected_demand cell by cell (default/explicit windows, category) and against the simulator, average_expected_demand against the exact '
      'common-period mean, population, WSA (3 documented forms), Todini, MRI (both forms), tank_capacity (cylinder and volume curve), pump '
      'power/energy/cost, annual_network_cost and annual_ghg_emissions against the documented tables.',
      'Formulas transcribed from the docstrings; global_efficiency is a percentage; table look-ups avoid exact ties.', 'DESIGN.md#C20')

check('C19', 'exploration', 'before/after oracle from the statement on split_pipe, break_pipe and skeletonize: dictionary diff of every other element, geometry along the vertex polyline, length and demand conservation, map partition, and WNTRSimulator results before/after a split',
      'Random networks with vertices, check valves, minor losses, closed pipes, dead ends, series chains, parallel pipes and controls; every '
      'pipe/fraction (0, 1, random)/end/return_copy combination is judged for conserved length, untouched other elements and sections, junction '
      'position/elevation, vertex distribution, no check valve on the new pipe, untouched input; splits are simulated before and after; '
      'skeletonize is judged for protected elements, total demand at every pattern instant and the skeleton map.',
      'Hydraulic equality of a split is judged to Newton-convergence tolerance; a minor-loss mechanism test separates the documented minor-loss copy from other causes.', 'DESIGN.md#C19')

check('C07', 'exploration', 'model-level sweep of every junction\'s pdd row through the compiled evaluator (230 pressures per junction) + system-level checker of reported (pressure, demand) on rigs and random PDD networks, against the documented curve',
      'Per junction the head variable is swept from Pmin-50 to Preq+50 (dense at the four breakpoints) and f(p) = -residual/D is judged: 0 below Pmin, 1 above Preq, '
      'power law between the bands, inside a band between its end values, non-decreasing, no jump larger than 3 x the steepest ideal slope x step; global and per-junction '
      'Pmin/Preq/exponent in any combination; reservoir-head sweeps on rigs and random networks check the reported demands against the same curve.',
      'Band width 0.05 m as documented; ranges narrower than two bands are a separate bucket (known finding).', 'DESIGN.md#C07')

check('C04', 'exploration', "online trace checker: every solved instant of report_timestep='ALL' runs x every control target vs a control-timeline reference model, cross-validated against EPANET 2.2 on the report grid",
      'Schedules of simple AT TIME / AT CLOCKTIME controls and rules with sim-time / clock-time conditions (ranges, AND/OR, ELSE, priorities) on three '
      'host networks, any start_clocktime, hydraulic/rule steps, up to 3 days: (a) every instant at which the schedule changes something is a solved '
      'instant (partial step), (b) at every solved instant every target has the value of the last event at or before it, (c) same-instant conflicts '
      'resolve by priority; a point where the reference model and EPANET disagree is never held against WNTR.',
      'Trusted: libepanet 2.2 shipped with the repository; the timeline model encodes EPANET conventions (rules from the first rule step on, "=" at the first evaluation at or after the instant).', 'DESIGN.md#C04')

check('C05', 'exploration', "offline trace checker over every solved instant (report 'ALL') + hook on the control-commanded link status at save_results: every definitely-true simple control vs the reported target state, with re-derived legitimate exceptions, and a threshold-overshoot bound",
      'Fill/drain rigs with small tanks (thresholds crossed several per hydraulic step), hysteresis pairs, pressure controls, priorities, and random '
      'networks with tank/pressure controls: at every solved instant every control whose condition holds beyond the solver tolerance must be reflected by '
      'its target (closed means reported closed; open unless check valve / pump shut-off / tank limit re-derived from the reported heads; only a '
      'possibly-true conflicting control of equal or higher priority excuses - on a valve a setting control commands Active); when a tank-level control switches its target, the level is within 2 s of tank flow of the threshold.',
      'Margins: 1.524e-4 m + 2 s of tank flow. Non-converging runs are inconclusive.', 'DESIGN.md#C05')

check('C12', 'exploration', 'round-trip oracle on the real InpFile writer/reader: canonical dictionary diff m0 ~ m1 per path with field-precision tolerances, m1 ~ m2 and per-section text comparison of the two INP files, for 10 flow units x 2 INP versions',
      'G-model restricted to what an INP file can hold (all element kinds and attributes, options of all groups, tags, vertices, categories, sources, '
      'controls on status/setting/speed with time, clock-time, tank-level and pressure conditions, rules with AND/OR/ELSE/priority) written in each flow '
      'unit and both versions and read back twice; every differing path is reported with its path class; the statement\'s exclusions are removed from both sides.',
      'Tolerance 1e-6 relative (+ printed-field resolution); simple-control and source names, element order inside a section are not compared.', 'DESIGN.md#C12')

check('C03', 'exploration', 'differential monitors on the reported result tables: WNTRSimulator vs EpanetSimulator per report step; EpanetSimulator x 10 INP unit systems; EPANET toolkit on original INP text vs WaterNetworkModel(inp)+EpanetSimulator',
      'Common-feature random networks (tanks incl. volume curves, 1/3-point and power pumps, PRV/PSV/FCV/TCV, check valves, patterns, pattern_start, '
      'controls, rules, DD and PDD): heads, pressures, demands, flows, tank levels and open/closed timelines of the two engines at every report step '
      '(until a tank touches a level limit), all ten unit systems against each other, and INP text emitted with an independent unit table (plus example files) '
      'run directly through the EPANET toolkit against the same text read and re-simulated through WNTR.',
      'Trusted: libepanet 2.2. Tolerances are wider than convergence where the engines use different constants (power pumps 7.7e-4) or EPANET itself converts units with '
      '4-5 digit constants; bistable check-valve states, near ties and tank-limit cycles are not held against either engine.', 'DESIGN.md#C03')

NOT_YET = 'monitor not built yet in this commit (planned in DESIGN.md section 4)'
ALL = ['C%02d' % i for i in range(1, 21)]


def main():
    checks = []
    for pid in ALL:
        if pid not in CHECKS:
            continue
        cat, tech, text, note, ref = CHECKS[pid]
        checks.append({
            'property_id': pid,
            'quick_cmd': './check %s --tier quick' % pid,
            'thorough_cmd': './check %s --tier thorough' % pid,
            'evidence_file': '/verif/evidence/%s.json' % pid,
            'replay_cmd_template': './check %s --replay {path}' % pid,
            'engine': 'wntr-runtime-monitors',
            'level_claimed': {'category': cat, 'text': text, 'design_ref': ref},
            'level_note': note,
            'technique': tech,
        })
    m = {
        'version': 1,
        'setup_cmd': '/venv/bin/python -m vlib.setup',
        'hooks': {
            'guard': 'WNTR_VERIF',
            'enable': 'no source hooks: monitors wrap module-level functions and classes of the working tree from '
                      'outside (vlib/boot.py rebind, icontract decorators); natives are rebuilt from /repo/*.cpp by vlib/native.py',
            'baseline_off_cmd': BASELINE,
            'source_commits': [],
            'add_only': True,
        },
        'engines': [{
            'name': 'wntr-runtime-monitors', 'path': '/verif/vlib',
            'serves_properties': [c['property_id'] for c in checks],
            'kind_free_text': 'runtime monitoring: seeded hostile workloads drive the real WNTR code (working tree, '
                              'natives rebuilt, ASan+UBSan variant) while independent oracles judge every observed event',
        }],
        'checks': checks,
        'not_applicable': [{'property_id': p, 'reason': NOT_YET} for p in ALL if p not in CHECKS],
        'notes': 'exit 0 held / 1 VIOLATION / 2 INCONCLUSIVE (coverage floor not met or build failed). '
                 'Known findings: /verif/known_findings.json (keyed by mechanism). Seeded breakages: /verif/seeded/.',
    }
    with open(os.path.join(VERIF, 'MANIFEST.json'), 'w') as f:
        json.dump(m, f, indent=1)
    print('wrote MANIFEST.json with %d checks' % len(checks))


if __name__ == '__main__':
    main()
