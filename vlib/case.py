"""Per-case result accumulator shared by all property monitors."""
import hashlib
import json
import math
import random


def case_rng(prop, seed, i):
    h = hashlib.sha256(('%s/%s/%s' % (prop, seed, i)).encode()).digest()
    return random.Random(int.from_bytes(h[:8], 'big'))


def jsonable(x, depth=0):
    """Best-effort conversion of witnesses to plain JSON."""
    import numpy as np
    if depth > 8:
        return repr(x)[:200]
    if x is None or isinstance(x, (bool, int, str)):
        return x
    if isinstance(x, float):
        if math.isnan(x) or math.isinf(x):
            return repr(x)
        return x
    if isinstance(x, (np.integer,)):
        return int(x)
    if isinstance(x, (np.floating,)):
        return jsonable(float(x))
    if isinstance(x, np.ndarray):
        return [jsonable(v, depth + 1) for v in x.tolist()[:200]]
    if isinstance(x, dict):
        return {str(k): jsonable(v, depth + 1) for k, v in list(x.items())[:400]}
    if isinstance(x, (list, tuple, set, frozenset)):
        return [jsonable(v, depth + 1) for v in list(x)[:400]]
    return repr(x)[:400]


class Case(object):
    """What one execution of a workload case observed."""

    MAX_VIOL = 6

    def __init__(self, prop, seed, tier, index):
        self.prop = prop
        self.seed = seed
        self.tier = tier
        self.index = index
        self.counters = {}
        self.violations = []
        self.why = None          # reason when inconclusive
        self.sig = None          # signature used for distinct_nontrivial
        self.nontrivial = False
        self.sample = None
        self.notes = []

    # -- observation helpers --------------------------------------------------------------
    def count(self, name, n=1):
        self.counters[name] = self.counters.get(name, 0) + n

    def violate(self, kind, msg, **witness):
        self.count('violations_raw')
        if len(self.violations) < self.MAX_VIOL or not any(v['kind'] == kind for v in self.violations):
            if len(self.violations) < 4 * self.MAX_VIOL:
                self.violations.append({'kind': kind, 'msg': msg, 'witness': jsonable(witness)})

    def inconclusive(self, why):
        if self.why is None:
            self.why = why

    def set_sig(self, *parts):
        self.sig = '|'.join(str(p) for p in parts)

    def result(self):
        if self.violations:
            verdict = 'violated'
        elif self.why is not None:
            verdict = 'inconclusive'
        else:
            verdict = 'held'
        return {'index': self.index, 'verdict': verdict, 'why': self.why, 'sig': self.sig,
                'nontrivial': bool(self.nontrivial), 'counters': self.counters,
                'violations': self.violations, 'sample': jsonable(self.sample),
                'notes': self.notes[:5]}


def dumps(o):
    return json.dumps(o, sort_keys=True, default=str)
