"""tools/mutall.py [--jobs N] [--only id,id] [--tier quick]

Hand-written one-line mutants of the repository (tools/mutants.json): for each, a scratch worktree of /repo HEAD under /tmp/wt
gets the mutation (the unique source line containing `anchor`, `old` -> `new`), and the quick check of each listed property is
run against it with VERIF_REPO.  Writes tools/mutants_result.json and prints one line per mutant.  /repo is never touched.
Unlike the seeded changes these mutants are not required to keep the repository's tests green: they probe the monitors' reach.
"""
import json
import os
import subprocess
import sys
import time

VERIF = os.path.dirname(os.path.dirname(os.path.abspath(__file__)))


def sh(cmd, **kw):
    return subprocess.run(cmd, capture_output=True, text=True, **kw)


def one(m, tier):
    wt = '/tmp/wt/mut-%s' % m['id']
    os.makedirs('/tmp/wt', exist_ok=True)
    sh(['git', '-C', '/repo', 'worktree', 'remove', '--force', wt])
    r = sh(['git', '-C', '/repo', 'worktree', 'add', '--detach', '-f', wt, 'HEAD'])
    res = {'id': m['id'], 'props': {}}
    if r.returncode:
        res['error'] = 'worktree: ' + r.stderr[-200:]
        return res
    try:
        path = os.path.join(wt, m['file'])
        lines = open(path).read().split('\n')
        hits = [i for i, ln in enumerate(lines) if m['anchor'] in ln]
        occ = m.get('anchor_occurrence')
        if (occ is None and len(hits) != 1) or (occ is not None and len(hits) < occ):
            res['error'] = 'anchor matches %d lines' % len(hits)
            return res
        i = hits[(occ or 1) - 1]
        if m['old'] not in lines[i]:
            res['error'] = 'old text not on the anchored line: %r' % lines[i][:120]
            return res
        lines[i] = lines[i].replace(m['old'], m['new'], 1)
        open(path, 'w').write('\n'.join(lines))
        imp = sh(['/venv/bin/python', '-c', 'import sys; sys.path.insert(0, %r); from vlib import boot; boot.setup(); import wntr' % VERIF],
                 env=dict(os.environ, VERIF_REPO=wt), cwd='/tmp')
        if imp.returncode:
            res['error'] = 'mutant does not import: ' + imp.stderr[-200:]
            return res
        if os.environ.get('MUT_DRY'):
            res['dry'] = lines[i].strip()[:160]
            return res
        for prop in m['props']:
            ck = sh([os.path.join(VERIF, 'check'), prop, '--tier', tier, '--no-evidence'], env=dict(os.environ, VERIF_REPO=wt), cwd=VERIF)
            kinds = {}
            for ln in ck.stdout.splitlines():
                if ln.startswith('  kind='):
                    k = ln.split()[0][5:]
                    kinds[k] = kinds.get(k, 0) + 1
            incon = [ln[:200] for ln in ck.stdout.splitlines() if ln.startswith('INCONCLUSIVE')]
            res['props'][prop] = {'exit': ck.returncode, 'kinds': kinds, 'inconclusive': incon[:1]}
        res['caught'] = any(v['exit'] == 1 for v in res['props'].values())
        res['flagged'] = any(v['exit'] != 0 for v in res['props'].values())
    finally:
        sh(['git', '-C', '/repo', 'worktree', 'remove', '--force', wt])
    return res


def main():
    tier = 'quick'
    jobs = 3
    only = None
    a = sys.argv[1:]
    if '--jobs' in a:
        jobs = int(a[a.index('--jobs') + 1])
    if '--only' in a:
        only = set(a[a.index('--only') + 1].split(','))
    if '--one' in a:
        m = json.loads(a[a.index('--one') + 1])
        print(json.dumps(one(m, tier)))
        return
    muts = json.load(open(os.path.join(VERIF, 'tools', 'mutants.json')))
    muts = [m for m in muts if only is None or m['id'] in only]
    out_path = os.path.join(VERIF, 'tools', 'mutants_result.json')
    results = {}
    if os.path.exists(out_path) and only is not None:
        results = {r['id']: r for r in json.load(open(out_path))}
    running = []
    queue = list(muts)
    while queue or running:
        while queue and len(running) < jobs:
            m = queue.pop(0)
            p = subprocess.Popen([sys.executable, os.path.abspath(__file__), '--one', json.dumps(m)], stdout=subprocess.PIPE, text=True)
            running.append((m, p))
        for m, p in list(running):
            if p.poll() is not None:
                running.remove((m, p))
                try:
                    r = json.loads(p.stdout.read().strip().splitlines()[-1])
                except Exception as e:  # noqa
                    r = {'id': m['id'], 'error': 'runner: %s' % e}
                r['what'] = m.get('what', '')
                results[m['id']] = r
                st = 'ERROR ' + r['error'] if 'error' in r else ('caught' if r.get('caught') else ('inconclusive-only' if r.get('flagged') else 'MISSED'))
                print('%-34s %-18s %s' % (m['id'], st, {p_: (v['exit'], v['kinds']) for p_, v in r.get('props', {}).items()}))
                sys.stdout.flush()
        time.sleep(0.5)
    json.dump([results[k] for k in sorted(results)], open(out_path, 'w'), indent=1, sort_keys=True)
    n = len(results)
    print('%d mutants: %d caught, %d missed, %d errors' % (n, sum(1 for r in results.values() if r.get('caught')),
                                                         sum(1 for r in results.values() if 'error' not in r and not r.get('caught')),
                                                         sum(1 for r in results.values() if 'error' in r)))


if __name__ == '__main__':
    main()
