"""tools/dbgcase.py <prop> <index> [tier] [seed]: run one case in-process and dump its result (debug aid)."""
import json, sys, os
sys.path.insert(0, os.path.dirname(os.path.dirname(os.path.abspath(__file__))))
os.environ.setdefault('PYTHONHASHSEED', '0')
from vlib import boot, case as caselib
import importlib, traceback, warnings
prop, idx = sys.argv[1].upper(), int(sys.argv[2])
tier = sys.argv[3] if len(sys.argv) > 3 else 'quick'
seed = int(sys.argv[4]) if len(sys.argv) > 4 else int(os.environ.get('VERIF_SEED', '0'))
mod = importlib.import_module('vlib.props.' + prop.lower())
boot.setup(need_deps=getattr(mod, 'NEED_DEPS', False))
warnings.simplefilter('ignore')
if hasattr(mod, 'worker_init'):
    mod.worker_init(tier, 'plain')
c = caselib.Case(prop, seed, tier, idx)
c.variant = 'plain'
try:
    mod.run_case(c, caselib.case_rng(prop, seed, idx))
except Exception:
    traceback.print_exc()
r = c.result()
print(json.dumps(r, indent=1, sort_keys=True, default=str)[:int(os.environ.get('DBG_MAX', '6000'))])
