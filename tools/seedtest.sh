#!/bin/bash
# tools/seedtest.sh <seeded-dir-name> <prop> [<prop>...]
# Runs the quick checks of the given properties against a scratch worktree of /repo with the
# seeded patch applied (VERIF_REPO points the harness at it; /repo itself is not touched).
name=$1; shift
wt=/tmp/wt/mut-$name-$$
git -C /repo worktree add --detach -f $wt HEAD >/dev/null 2>&1 || exit 3
if ! git -C $wt apply /verif/seeded/$name/patch.diff; then echo "PATCH DOES NOT APPLY"; git -C /repo worktree remove --force $wt; exit 3; fi
cd /verif
for p in "$@"; do
  VERIF_REPO=$wt ./check $p --tier ${TIER:-quick} --no-evidence > /tmp/wt/seedtest-$name-$p.log 2>&1
  rc=$?
  echo "== $name vs $p: exit $rc; $(grep -c '^VIOLATION' /tmp/wt/seedtest-$name-$p.log) VIOLATION lines; kinds: $(grep '^  kind=' /tmp/wt/seedtest-$name-$p.log | awk '{print $1}' | sort | uniq -c | tr '\n' ' ')"
done
git -C /repo worktree remove --force $wt
