#!/bin/bash
# tools/muttest.sh <label> <file-relative-to-repo> <python-expr old=>new as two args> <prop> [<prop>...]
# usage: tools/muttest.sh lbl wntr/sim/aml/evaluator.cpp 'old text' 'new text' C15
# Applies a literal one-shot text replacement in a scratch worktree of /repo HEAD and runs quick checks there.
label=$1; file=$2; old=$3; new=$4; shift 4
wt=/tmp/wt/mut-$label-$$
mkdir -p /tmp/wt
git -C /repo worktree add --detach -f $wt HEAD >/dev/null 2>&1 || exit 3
/venv/bin/python - "$wt/$file" "$old" "$new" <<'P' || { git -C /repo worktree remove --force $wt; exit 3; }
import sys
p, old, new = sys.argv[1:4]
s = open(p).read()
if s.count(old) < 1:
    print('OLD TEXT NOT FOUND'); sys.exit(1)
open(p, 'w').write(s.replace(old, new, 1))
P
cd /verif
for p in "$@"; do
  VERIF_REPO=$wt ./check $p --tier ${TIER:-quick} --no-evidence > /tmp/wt/muttest-$label-$p.log 2>&1
  rc=$?
  echo "== $label vs $p: exit $rc; $(grep -c '^VIOLATION' /tmp/wt/muttest-$label-$p.log) VIOLATION lines; kinds: $(grep '^  kind=' /tmp/wt/muttest-$label-$p.log | awk '{print $1}' | sort | uniq -c | tr '\n' ' ')"
done
git -C /repo worktree remove --force $wt
