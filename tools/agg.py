"""tools/agg.py <prop> <n> [tier]: run cases 0..n-1 in-process, aggregate violations by (kind, first words of msg)."""
import sys, os, re, collections
sys.path.insert(0, os.path.dirname(os.path.dirname(os.path.abspath(__file__))))
os.environ.setdefault('PYTHONHASHSEED', '0')
from vlib import boot, case as caselib
import importlib, warnings
prop, n = sys.argv[1].upper(), int(sys.argv[2])
tier = sys.argv[3] if len(sys.argv) > 3 else 'quick'
seed = int(os.environ.get('VERIF_SEED', '0'))
mod = importlib.import_module('vlib.props.' + prop.lower())
boot.setup(need_deps=getattr(mod, 'NEED_DEPS', False))
warnings.simplefilter('ignore')
if hasattr(mod, 'worker_init'):
    mod.worker_init(tier, 'plain')
agg = collections.Counter(); ex = {}
for i in range(n):
    c = caselib.Case(prop, seed, tier, i); c.variant = 'plain'
    try:
        mod.run_case(c, caselib.case_rng(prop, seed, i))
    except Exception as e:
        agg[('HARNESS', type(e).__name__ + ': ' + str(e)[:80])] += 1
        continue
    for v in c.violations:
        m = re.sub(r"'[^']*'", "'_'", v['msg'])
        m = re.sub(r"\d+", "#", m)[:int(os.environ.get('AGG_W', '110'))]
        agg[(v['kind'], m)] += 1
        ex.setdefault((v['kind'], m), (i, v['msg'][:300]))
    if c.why:
        agg[('INCONCLUSIVE', c.why[:80])] += 1
for k, v in agg.most_common(60):
    print(v, k[0], '|', k[1], '| e.g. case', ex.get(k, ('', ''))[0])
