"""tools/floors.py <tier> <seeds e.g. 0,1,2,3,4> [props...]

Runs each check for several seeds (no evidence written) and compares the per-module FLOORS with the minimum that the
unchanged tree produced: a floor above one third of that minimum is flagged (it could trip on a healthy tree).
"""
import importlib
import os
import re
import subprocess
import sys

VERIF = os.path.dirname(os.path.dirname(os.path.abspath(__file__)))
sys.path.insert(0, VERIF)


def main():
    write = '--write' in sys.argv or '--merge' in sys.argv
    merge = '--merge' in sys.argv        # keep the lower of the stored and the newly measured floor (several sweeps, one table)
    args = [x for x in sys.argv[1:] if x not in ('--write', '--merge')]
    tier = args[0]
    seeds = [int(s) for s in args[1].split(',')]
    props = args[2:] or ['C%02d' % i for i in range(1, 21)]
    fj = os.path.join(VERIF, 'vlib', 'floors.json')
    fout = fj
    if '--out' in args:       # write the updated table elsewhere (two sweeps running side by side must not overwrite each other)
        i = args.index('--out')
        fout = args[i + 1]
        del args[i:i + 2]
        props = args[2:] or ['C%02d' % k for k in range(1, 21)]
    import json
    table = json.load(open(fj)) if os.path.exists(fj) else {}
    for prop in props:
        mod = importlib.import_module('vlib.props.' + prop.lower())
        floors = table.get(prop, {}).get(tier) or getattr(mod, 'FLOORS', {}).get(tier, {})
        keys_from = getattr(mod, 'FLOORS', {}).get(tier, {})
        mins = {}
        alarms = []
        for s in seeds:
            r = subprocess.run([os.path.join(VERIF, 'check'), prop, '--tier', tier, '--no-evidence'], capture_output=True, text=True,
                               env=dict(os.environ, VERIF_SEED=str(s), VERIF_NO_FLOORS='1'), cwd=VERIF)
            out = r.stdout
            m = re.search(r'held=(\d+) violated=(\d+) inconclusive=(\d+) distinct_nontrivial=(\d+)', out)
            if not m:
                alarms.append('seed %d: no summary (exit %d)' % (s, r.returncode))
                continue
            obs = {'conclusive': int(m.group(1)) + int(m.group(2)), 'distinct_nontrivial': int(m.group(4))}
            mo = re.search(r'^  observed: (.*)$', out, re.M)
            if mo:
                for kv in mo.group(1).split(', '):
                    k, v = kv.split('=')
                    obs[k] = int(v)
            for k, v in obs.items():
                mins[k] = min(mins.get(k, v), v)
            for k in list(floors.get('counters', {})) + ['conclusive', 'distinct_nontrivial']:
                if k not in obs:
                    mins[k] = 0
            if r.returncode != 0:
                alarms.append('seed %d: exit %d %s' % (s, r.returncode, ' | '.join(ln[:160] for ln in out.splitlines() if ln.startswith(('VIOLATION', 'INCONCLUSIVE')))[:500]))
        flat = dict(floors.get('counters', {}))
        for k in ('conclusive', 'distinct_nontrivial'):
            if k in floors:
                flat[k] = floors[k]
        bad = ['%s floor %d > min %d / 3' % (k, f, mins.get(k, 0)) for k, f in sorted(flat.items()) if f * 3 > mins.get(k, 0)]
        print('%s %s seeds=%s: %s' % (prop, tier, seeds, 'ok' if not bad and not alarms else ''))
        for b in bad:
            print('   FLOOR', b)
        for a in alarms:
            print('   ALARM', a)
        print('   min observed:', ', '.join('%s=%d' % kv for kv in sorted(mins.items()) if not kv[0].startswith('max_diff')))
        sys.stdout.flush()
        if write and not alarms:
            keys = set(keys_from.get('counters', {})) | set(floors.get('counters', {}))
            new = {
                'conclusive': max(1, mins.get('conclusive', 0) // 3), 'distinct_nontrivial': max(1, mins.get('distinct_nontrivial', 0) // 3),
                'counters': {k: max(1, mins.get(k, 0) // 3) for k in sorted(keys) if mins.get(k, 0) > 0},
                'measured_on_seeds': seeds}
            old = table.get(prop, {}).get(tier)
            if merge and old:
                new['conclusive'] = min(new['conclusive'], old.get('conclusive', new['conclusive']))
                new['distinct_nontrivial'] = min(new['distinct_nontrivial'], old.get('distinct_nontrivial', new['distinct_nontrivial']))
                new['counters'] = {k: min(v, old.get('counters', {}).get(k, v)) for k, v in new['counters'].items()}
                new['measured_on_seeds'] = sorted(set(old.get('measured_on_seeds', [])) | set(seeds))
            table.setdefault(prop, {})[tier] = new
            json.dump(table, open(fout, 'w'), indent=1, sort_keys=True)


if __name__ == '__main__':
    main()
