"""tools/intake.py <worktree> <name> "<needs to manifest>"

Take a seeded change a sub-agent left in its scratch worktree (uncommitted diff + demo.py + SEED_NOTES.md) into
/verif/seeded/<name>/ as patch.diff, demo.py, notes.md and a meta.json stub; tools/seedall.py <name> then verifies it
(demo clean / with change, optional repo tests, the property's check) in a fresh worktree and completes meta.json.
"""
import json
import os
import subprocess
import sys

VERIF = os.path.dirname(os.path.dirname(os.path.abspath(__file__)))


def main():
    wt, name, needs = sys.argv[1], sys.argv[2], sys.argv[3]
    rnd = sys.argv[4] if len(sys.argv) > 4 else '2'
    d = os.path.join(VERIF, 'seeded', name)
    os.makedirs(d, exist_ok=True)
    diff = subprocess.run(['git', '-C', wt, 'diff', '--', 'wntr'], capture_output=True, text=True).stdout
    if not diff.strip():
        sys.exit('no diff in %s' % wt)
    open(os.path.join(d, 'patch.diff'), 'w').write(diff)
    demo = open(os.path.join(wt, 'demo.py')).read()
    # demos are run as <worktree>/seed_demo.py: make paths relative to that file, not to the sub-agent's directory
    w = wt.rstrip('/')
    if w in demo:
        demo = "import os as _os\n_WT = _os.path.dirname(_os.path.abspath(__file__))\n" + \
               demo.replace("'" + w, "_WT + '").replace('"' + w, '_WT + "')
        if w in demo:
            print('WARNING: demo still mentions', w, '- edit by hand')
    open(os.path.join(d, 'demo.py'), 'w').write(demo)
    notes = os.path.join(wt, 'SEED_NOTES.md')
    if os.path.exists(notes):
        open(os.path.join(d, 'notes.md'), 'w').write(open(notes).read().replace(wt.rstrip('/'), '<worktree>'))
    meta = {'property': name.split('-')[0], 'needs_to_manifest': needs,
            'origin': 'fresh sub-agent given only the property text and a scratch worktree (round %s)' % rnd}
    json.dump(meta, open(os.path.join(d, 'meta.json'), 'w'), indent=1, sort_keys=True)
    print('stored', d, 'diff lines', len(diff.splitlines()))


if __name__ == '__main__':
    main()
