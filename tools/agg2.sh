#!/bin/bash
# tools/agg2.sh <prop> <n>: histogram of violation kinds with one example each
AGG_W=400 /venv/bin/python -W ignore /verif/tools/agg.py "$@" 2>&1 | grep -v Warn | /venv/bin/python -c "
import sys,re,collections
agg=collections.Counter(); ex={}
for line in sys.stdin:
    m=re.match(r'(\d+) (\S+) \| (.*)', line)
    if not m: print(line.strip()[:200]); continue
    n,kind,rest=int(m.group(1)),m.group(2),m.group(3)
    agg[kind]+=n; ex.setdefault(kind,rest[:260])
for k,v in agg.most_common(): print(v,k,'|',ex[k])
"
