"""tools/seedall.py [--tests] [--jobs N] [names...]

For every seeded breakage in /verif/seeded/<name>/ (patch.diff + demo.py):
  1. scratch worktree of /repo HEAD under /tmp/wt (removed afterwards), natives rebuilt into it;
  2. demo.py on the clean worktree  -> must exit 0;
  3. patch applied; demo.py           -> must exit non-zero;
  4. (--tests) the repository's test suite in the patched worktree -> the 302 baseline tests must pass;
  5. ./check <property> --tier quick --no-evidence with VERIF_REPO=<worktree> -> must exit 1 with VIOLATION lines;
  6. meta.json is (re)written with what was run and seen.
/repo itself is never touched.
"""
import json
import os
import re
import shutil
import subprocess
import sys

VERIF = os.path.dirname(os.path.dirname(os.path.abspath(__file__)))
PY = '/venv/bin/python'
NEEDS = {
    'C01-isolated-leak-stale': 'a leak that is still active at a junction which controls have cut off from every source',
    'C02-stale-pump-coeff-cache': 'a pump curve that is re-calibrated in place (points changed) after the coefficients were computed once',
    'C03-tcv-setting-not-updated': 'a control or rule that changes a TCV setting during a WNTRSimulator run',
    'C04-presolve-backtrack-restore': 'a simple control that changes nothing, at an instant on the rule grid but off the hydraulic grid, followed by another control inside the same hydraulic step',
    'C05-isolated-stale-pressure': 'a junction-pressure control whose source junction becomes isolated after a step with non-zero pressure',
    'C06-volcurve-backtrack-head': 'a tank with a volume curve whose level control is expressed on head and crossed inside a hydraulic step',
    'C07-pmin-zero-override': 'a junction with minimum_pressure = 0.0 overriding a non-zero global minimum pressure',
    'C08-reset-keeps-leak-status': 'run with an active leak, reset_initial_values, run again with a leak window that starts later',
    'C09-parallel-reversed-link': 'two parallel links between the same nodes drawn in opposite directions, the forward one closed',
    'C10-tcv-setting-updater-removed': 'pause, change nothing, continue a run in which a control changes a TCV setting after the pause',
    'C11-timestep-writeback': 'a report_timestep that is not a multiple of the hydraulic timestep',
    'C12-tank-reaction-order': 'a tank bulk coefficient together with tank_order different from bulk_order',
    'C13-demand-category-first': 'a junction with several demands whose first demand has a category',
    'C14-reassign-same-node': 're-assigning a link end node to the node it already has',
    'C15-sign-zero': 'an expression with sign(x) evaluated exactly at x = 0',
    'C16-backup-solver-hides-failure': 'a backup solver that also fails at some solve',
    'C17-si-power-from-si': 'from_si of a power value for FlowUnits.SI',
    'C18-duplicate-valves-dropped': 'a valve layer with duplicated rows',
    'C19-split-length-swapped': 'split_pipe with add_pipe_at_end=False and a fraction other than 0.5',
    'C20-category-no-multiplier': 'expected_demand with a category filter and a demand multiplier other than 1',
}


def sh(cmd, **kw):
    return subprocess.run(cmd, capture_output=True, text=True, **kw)


def one(name, with_tests):
    d = os.path.join(VERIF, 'seeded', name)
    prop = name.split('-')[0]
    wt = '/tmp/wt/seed-%s' % name
    os.makedirs('/tmp/wt', exist_ok=True)
    sh(['git', '-C', '/repo', 'worktree', 'remove', '--force', wt])
    r = sh(['git', '-C', '/repo', 'worktree', 'add', '--detach', '-f', wt, 'HEAD'])
    meta = {'property': prop, 'needs_to_manifest': NEEDS.get(name, ''), 'base_commit': sh(['git', '-C', '/repo', 'rev-parse', '--short', 'HEAD']).stdout.strip()}
    if r.returncode != 0:
        meta['error'] = 'worktree: ' + r.stderr[-300:]
        return meta
    try:
        env = dict(os.environ, PYTHONPATH=wt + ':' + VERIF, VERIF_REPO=wt, PYTHONHASHSEED='0', MPLBACKEND='Agg')

        def natives():
            b = sh([PY, '-c', 'import json,sys; sys.path.insert(0, %r); from vlib import native; print(json.dumps(native.build("plain")))' % VERIF, ], env=env)
            paths = json.loads(b.stdout.strip().splitlines()[-1])
            for mod, so in paths.items():
                dst = os.path.join(wt, *mod.split('.')[:-1], os.path.basename(so))
                shutil.copy(so, dst)

        def demo():
            shutil.copy(os.path.join(d, 'demo.py'), os.path.join(wt, 'seed_demo.py'))     # demos locate example files relative to themselves
            r_ = sh([PY, '-W', 'ignore', os.path.join(wt, 'seed_demo.py')], env=env, cwd=wt, timeout=900)
            return r_.returncode, (r_.stdout + r_.stderr)[-600:]
        natives()
        rc0, out0 = demo()
        meta['demo_on_unchanged_tree'] = {'exit': rc0}
        ap = sh(['git', '-C', wt, 'apply', os.path.join(d, 'patch.diff')])
        if ap.returncode != 0:
            meta['error'] = 'patch does not apply: ' + ap.stderr[-300:]
            return meta
        natives()
        rc1, out1 = demo()
        meta['demo_with_change'] = {'exit': rc1, 'tail': out1[-300:]}
        if with_tests:
            # the repository's pytest configuration uses --doctest-modules: every .py under the root is imported
            for f_ in ('seed_demo.py', 'demo.py'):
                if os.path.exists(os.path.join(wt, f_)):
                    os.remove(os.path.join(wt, f_))
            t = sh([PY, '-m', 'pytest', '-q', '-p', 'no:cacheprovider', '--timeout=900', '--continue-on-collection-errors'], env=env, cwd=wt, timeout=5400)
            text = t.stdout + t.stderr
            lines_ = [ln for ln in text.splitlines() if re.search(r'\d+ passed', ln)]
            tail = lines_[-1].strip() if lines_ else (text.strip().splitlines()[-1] if text.strip() else '')
            m, f_, e_ = re.search(r'(\d+) passed', tail), re.search(r'(\d+) failed', tail), re.search(r'(\d+) errors?', tail)
            meta['repo_tests_with_change'] = {'summary': tail[-160:], 'passed': int(m.group(1)) if m else None,
                                              'failed': int(f_.group(1)) if f_ else 0, 'errors': int(e_.group(1)) if e_ else 0,
                                              'same_as_baseline': bool(m and int(m.group(1)) == 302 and f_ and int(f_.group(1)) == 7 and e_ and int(e_.group(1)) == 4)}
        ck = sh([os.path.join(VERIF, 'check'), prop, '--tier', 'quick', '--no-evidence'], env=dict(os.environ, VERIF_REPO=wt), cwd=VERIF, timeout=3600)
        kinds = {}
        for ln in ck.stdout.splitlines():
            if ln.startswith('  kind='):
                k = ln.split()[0][5:]
                kinds[k] = kinds.get(k, 0) + 1
        meta['check'] = {'cmd': './check %s --tier quick (VERIF_REPO=<patched worktree>)' % prop, 'exit': ck.returncode,
                         'violation_lines': sum(1 for ln in ck.stdout.splitlines() if ln.startswith('VIOLATION')), 'kinds': kinds}
        meta['caught'] = ck.returncode == 1 and meta['check']['violation_lines'] > 0
        meta['confirmed'] = (rc0 == 0 and rc1 != 0)
    finally:
        sh(['git', '-C', '/repo', 'worktree', 'remove', '--force', wt])
    return meta


def readme():
    root = os.path.join(VERIF, 'seeded')
    rows = []
    for name in sorted(os.listdir(root)):
        mp = os.path.join(root, name, 'meta.json')
        if not os.path.exists(mp):
            continue
        m = json.load(open(mp))
        files = [ln[6:].strip() for ln in open(os.path.join(root, name, 'patch.diff')) if ln.startswith('+++ b/')]
        t = m.get('repo_tests_with_change') or {}
        rows.append('| %s | %s | %s | %s | %s | %s | %s |' % (
            name, ', '.join(f.replace('wntr/', '') for f in files), m.get('needs_to_manifest', ''),
            'yes' if m.get('confirmed') else 'NO', t.get('summary', 'not run')[:60].replace('|', '/'),
            'yes' if m.get('caught') else 'NO',
            ', '.join('%s x%d' % kv for kv in sorted((m.get('check') or {}).get('kinds', {}).items()))))
    with open(os.path.join(root, 'README.md'), 'w') as f:
        f.write('# Seeded changes (generated by tools/seedall.py - do not edit)\n\n'
                'Each change keeps the repository\'s tests green (column "repo tests with change": the baseline is 7 failed, 302 passed, 4 errors; C16-r2 no longer\nmeets it at the final HEAD and is kept as a mutant only), breaks its property only under the stated condition, and was verified in a\n'
                'scratch worktree of /repo (demo.py exits 0 without the change, non-zero with it). "caught" = `./check <property> --tier quick`\n'
                'against the patched worktree exits 1 with VIOLATION lines of the listed kinds.\n\n'
                '| change | file(s) | needs | demo confirms | repo tests with change | caught | violation kinds |\n|---|---|---|---|---|---|---|\n')
        f.write('\n'.join(rows) + '\n')


def main():
    if '--readme' in sys.argv:
        readme()
        return
    args = [a for a in sys.argv[1:] if not a.startswith('--')]
    with_tests = '--tests' in sys.argv
    jobs = 6
    if '--jobs' in sys.argv:
        jobs = int(sys.argv[sys.argv.index('--jobs') + 1])
        args = [a for a in args if a != str(jobs)]
    if '--one' in sys.argv:
        name = args[0]
        meta = one(name, with_tests)
        p = os.path.join(VERIF, 'seeded', name, 'meta.json')
        old = {}
        if os.path.exists(p):
            try:
                old = json.load(open(p))
            except ValueError:
                old = {}
        if not with_tests and 'repo_tests_with_change' in old:
            meta['repo_tests_with_change'] = old['repo_tests_with_change']
        for k in ('origin', 'notes'):
            if k in old:
                meta[k] = old[k]
        if not meta.get('needs_to_manifest') and old.get('needs_to_manifest'):
            meta['needs_to_manifest'] = old['needs_to_manifest']
        json.dump(meta, open(p, 'w'), indent=1, sort_keys=True)
        print('%-40s confirmed=%s caught=%s %s %s' % (name, meta.get('confirmed'), meta.get('caught'), meta.get('check', {}).get('kinds'), meta.get('error', '')))
        return
    names = args or sorted(os.listdir(os.path.join(VERIF, 'seeded')))
    running = []
    while names or running:
        while names and len(running) < jobs:
            n = names.pop(0)
            running.append(subprocess.Popen([PY, os.path.abspath(__file__), '--one', n] + (['--tests'] if with_tests else [])))
        for p_ in list(running):
            if p_.poll() is not None:
                running.remove(p_)
        import time
        time.sleep(0.5)
    readme()


if __name__ == '__main__':
    main()
