"""tools/viol.py <prop> <index> [tier]: run one case, print its violations compactly (no call logs)."""
import json, sys, os, subprocess
env = dict(os.environ, DBG_MAX='400000')
out = subprocess.run(['/venv/bin/python', '-W', 'ignore', os.path.join(os.path.dirname(__file__), 'dbgcase.py')] + sys.argv[1:],
                     capture_output=True, text=True, env=env).stdout
i = out.find('{\n')
r = json.loads(out[i:])
print('verdict', r['verdict'], 'why', r['why'])
skip = set((os.environ.get('SKIP') or 'calls,ops,sample,model').split(','))
for v in r['violations']:
    print('-', v['kind'], '::', v['msg'][:700])
    for k, w in (v.get('witness') or {}).items():
        if k in skip:
            continue
        s = w if isinstance(w, str) else json.dumps(w)
        print('     %s: %s' % (k, s[-int(os.environ.get('W', '900')):]))
for n in r.get('notes') or []:
    print('NOTE', n)
